"""
Self-tests of the machinery (DESIGN 7).

  ./check selftest-determinism [N] [ID ...]   same seed -> same event log, everywhere
  ./check selftest-mutants [--matrix] [name ...]  every kept mutant is caught, nothing else fires
  ./check selftest-digests ID N [--reverse]    (helper) print the digests of runs 0..N-1
"""

import gc
import json
import os
import random
import shutil
import subprocess
import sys
import tempfile
import time

import egsim
from egsim import engine, runner, seams

CLAIMED = ["C01", "C02", "C03", "C05", "C10", "C11", "C12", "C13", "C17", "C18", "C19", "C20"]


def digests_here(pid, seed, n, reverse=False, noise=False):
    """Digests (and verdict kinds) of runs 0..n-1 executed in THIS process."""
    prop = engine.get_property(pid)
    if getattr(prop, "uses_restart", False):
        from egsim import restart

        restart.start_zygote()
    out = {}
    order = range(n - 1, -1, -1) if reverse else range(n)
    junk = []
    for i in order:
        if noise:
            # shift addresses / allocator state between runs
            junk.append([object() for _ in range(random.randrange(1, 2000))])
            if len(junk) > 5:
                junk.pop(0)
                gc.collect()
        res = runner._one_run(prop, seams.derive_seed(pid, seed, i))  # pylint: disable=protected-access
        kind = res.violation["kind"] if res.violation else None
        out[str(i)] = [res.digest, kind, len(res.ops)]
    try:
        from egsim import restart

        restart.shutdown_zygote()
    except Exception:  # pylint: disable=broad-except
        pass
    return out


def _fresh(pid, seed, n, hashseed, extra_env=None, reverse=False):
    env = dict(os.environ)
    env["PYTHONHASHSEED"] = str(hashseed)
    env["VERIF_SEED"] = str(seed)
    env.update(extra_env or {})
    cmd = [
        sys.executable, "-B", os.path.join(egsim.VERIF_ROOT, "check"),
        "selftest-digests", pid, str(n),
    ]
    if reverse:
        cmd.append("--reverse")
    cp = subprocess.run(cmd, capture_output=True, text=True, env=env, timeout=3000, check=False)
    if cp.returncode != 0:
        raise egsim.HarnessError(f"digest helper failed: {cp.stderr[-1500:]}")
    return json.loads(cp.stdout.rsplit("===DIGESTS===", 1)[1])


def _parallel(pid, seed, n, workers):
    merged = runner.run_parallel(pid, seed, n, workers, 1, 3000, chunk=max(1, n // (workers * 2) or 1), all_digests=True)
    if merged["errors"]:
        raise egsim.HarnessError(merged["errors"][0])
    return merged["digests"]


def determinism(seed, args):
    n = 150
    pids = []
    for a in args:
        if a.isdigit():
            n = int(a)
        else:
            pids.append(a.upper())
    pids = pids or CLAIMED
    bad = 0
    t0 = time.time()
    for pid in pids:
        a = _fresh(pid, seed, n, 0)
        b = _fresh(pid, seed, n, random.SystemRandom().randrange(1, 2**32), reverse=True)
        c = _fresh(pid, seed, n, 12345, extra_env={"EGSIM_NOISE": "1"})
        d16 = _parallel(pid, seed, n, 16)
        d1 = _parallel(pid, seed, min(n, 40), 1)
        prop = engine.get_property(pid)
        variants = {"hashseed0": a, "hashseed-random,reverse-order": b, "alloc-noise": c}
        mism = []
        for name, v in variants.items():
            for i in a:
                if v[i] != a[i]:
                    mism.append((name, i, a[i], v[i]))
        for i, dg in d16.items():
            if i in a and a[i][0] != dg:
                mism.append(("16-workers", i, a[i][0], dg))
        for i, dg in d1.items():
            if i in a and a[i][0] != dg:
                mism.append(("1-worker", i, a[i][0], dg))
        if getattr(prop, "uses_restart", False):
            e = _fresh(pid, seed, n, 7, extra_env={"EGSIM_RESTART_MODE": "exec"})
            z = _fresh(pid, seed, n, 7, extra_env={"EGSIM_RESTART_MODE": "zygote"})
            for i in e:
                if e[i] != z[i]:
                    mism.append(("exec-vs-zygote", i, e[i], z[i]))
                if e[i] != a[i]:
                    mism.append(("exec-override-vs-scheduled", i, a[i], e[i]))
        status = "ok" if not mism else f"MISMATCH x{len(mism)}"
        print(f"determinism {pid}: {n} seeds x {len(variants) + 2} variants: {status}")
        for m in mism[:5]:
            print("   ", m)
        bad += len(mism)
        sys.stdout.flush()
    print(f"selftest-determinism: {'PASS' if not bad else 'FAIL'} in {time.time() - t0:.0f}s")
    return 0 if not bad else 2


# ------------------------------------------------------------------ mutants
def _scratch_copy():
    base = "/dev/shm" if os.path.isdir("/dev/shm") else tempfile.gettempdir()
    d = tempfile.mkdtemp(prefix="egsim-mutant-", dir=base)
    shutil.copytree(os.path.join(egsim.REPO_ROOT, "edgegraph"), os.path.join(d, "edgegraph"),
                    ignore=shutil.ignore_patterns("__pycache__"))
    return d


def _run_check(pid, root, runs=None):
    env = dict(os.environ)
    env["VERIF_REPO_ROOT"] = root
    env["VERIF_EVIDENCE_DIR"] = os.path.join(root, "evidence")
    cmd = [sys.executable, "-B", os.path.join(egsim.VERIF_ROOT, "check"), pid, "--tier", "quick"]
    if runs is None:
        # a quarter of the quick budget is the bar a change has to be caught within
        runs = max(2000, engine.get_property(pid).budget["quick"]["runs"] // 4)
    cmd += ["--runs", str(runs)]
    cp = subprocess.run(cmd, capture_output=True, text=True, env=env, timeout=3000, check=False)
    kinds = [ln for ln in cp.stdout.splitlines() if ln.startswith("violation kind=")]
    return cp.returncode, kinds, cp.stdout[-800:] + cp.stderr[-800:]


def mutant_dirs():
    out = []
    for base in ("mutants", "seeded"):
        d = os.path.join(egsim.VERIF_ROOT, base)
        if not os.path.isdir(d):
            continue
        for name in sorted(os.listdir(d)):
            p = os.path.join(d, name)
            if os.path.isfile(os.path.join(p, "patch.diff")) and os.path.isfile(os.path.join(p, "meta.json")):
                out.append((f"{base}/{name}", p))
    return out


def mutants(seed, args):
    matrix = "--matrix" in args
    light = "--light" in args  # cross checks (not the expected ones) at a tenth of the quick budget
    names = [a for a in args if not a.startswith("--")]
    failures = 0
    rows = []
    for name, path in mutant_dirs():
        if names and not any(n in name for n in names):
            continue
        with open(os.path.join(path, "meta.json")) as f:
            meta = json.load(f)
        root = _scratch_copy()
        try:
            cp = subprocess.run(
                ["patch", "-p1", "-d", root, "-i", os.path.join(path, "patch.diff")],
                capture_output=True, text=True, check=False,
            )
            if cp.returncode != 0:
                print(f"mutant {name}: patch does not apply: {cp.stdout[-300:]}{cp.stderr[-300:]}")
                failures += 1
                continue
            if meta.get("not_targeted"):
                print(f"mutant {name}: not targeted -- {meta['not_targeted'][:150]}")
                continue
            expect = meta.get("caught_by") or [meta["property"]]
            if meta["property"] == "-" and not meta.get("caught_by"):
                expect = []  # a refactor names no property: every check is a cross check
            also = set(meta.get("also_breaks", []))
            if meta.get("expect_silent"):
                # a property-preserving change: nothing may fire
                row = {"mutant": name, "property": meta["property"], "results": {}, "silent": True}
                for pid in (CLAIMED if matrix or not expect else expect):
                    runs = None
                    if (light or not expect) and pid not in expect:
                        runs = max(1500, engine.get_property(pid).budget["quick"]["runs"] // 10)
                    rc, kinds, tail = _run_check(pid, root, runs)
                    row["results"][pid] = rc
                    if rc != 0:
                        failures += 1
                        print(f"refactor {name}: FALSE ALARM from {pid} (rc={rc}): {kinds[:1]} {tail[-200:]}")
                    else:
                        print(f"refactor {name}: {pid} stays quiet")
                    sys.stdout.flush()
                rows.append(row)
                continue
            row = {"mutant": name, "property": meta["property"], "results": {}}
            for pid in (CLAIMED if matrix else expect):
                runs = None
                if light and pid not in expect:
                    runs = max(1500, engine.get_property(pid).budget["quick"]["runs"] // 10)
                rc, kinds, tail = _run_check(pid, root, runs)
                row["results"][pid] = rc
                if pid in expect:
                    if rc != 1:
                        failures += 1
                        print(f"mutant {name}: NOT caught by {pid} (rc={rc}) {tail[-300:]}")
                    else:
                        print(f"mutant {name}: caught by {pid}: {kinds[0][:160] if kinds else ''}")
                elif rc != 0 and pid not in also:
                    failures += 1
                    print(f"mutant {name}: unexpected alarm from {pid} (rc={rc}): {kinds[:1]}")
                sys.stdout.flush()
            rows.append(row)
        finally:
            shutil.rmtree(root, ignore_errors=True)
    print(json.dumps(rows))
    print(f"selftest-mutants: {'PASS' if not failures else 'FAIL'} ({len(rows)} mutants)")
    return 0 if not failures else 2


def main(what, seed, args):
    if what == "selftest-digests":
        pid, n = args[0].upper(), int(args[1])
        out = digests_here(pid, seed, n, reverse="--reverse" in args, noise=bool(os.environ.get("EGSIM_NOISE")))
        sys.stdout.write("===DIGESTS===" + json.dumps(out))
        return 0
    if what == "selftest-determinism":
        return determinism(seed, args)
    if what == "selftest-mutants":
        return mutants(seed, args)
    print(f"unknown self-test {what}", file=sys.stderr)
    return 2
