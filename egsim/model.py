"""
The reference model: plain data, no edgegraph types.  Its state has exactly the
shape of `World.snapshot()`, so refinement is checked by dict equality after
every step.

What each call must do is written here from the documentation and the
property statements (C02, C03, C11), not from the implementation.
"""

import copy

from egsim import classes as C
from egsim import ops as O


class Raises:
    """Model outcome: the call must raise (optionally a named class)."""

    def __init__(self, cls=None):
        self.cls = cls


class AnyOf:
    """Model outcome: the call may return any of these labels."""

    def __init__(self, labels):
        self.labels = list(labels)


class Model:
    def __init__(self):
        self.objs = {}  # label -> dict, insertion ordered like World.objs
        self.alt = None  # an alternative acceptable state (narrow relaxations)
        self.tags = {}  # label -> the immutable tag given at creation

    def rejects(self, u, v):
        """
        egsim.classes.RejectingUniverse admits a vertex through the base class
        and then removes it again when its tag is 5: net effect, no membership.
        """
        return self.objs[u].get("cls") == "RejectingUniverse" and self.tags.get(v) == 5

    # -- helpers -----------------------------------------------------------------
    def copy_state(self):
        return copy.deepcopy(self.objs)

    def is_bad(self, ref):
        return isinstance(ref, dict) and "bad" in ref

    def other(self, e, v):
        """TwoEndedLink.other by position: v1 first, then v2; else None."""
        ends = self.objs[e]["ends"]
        if len(ends) < 2:
            raise IndexError
        if v == ends[0]:
            return ends[1]
        if v == ends[1]:
            return ends[0]
        return None

    def _new_vertex(self, label, cls, k="v"):
        d = {"k": k, "cls": cls, "links": [], "universes": []}
        if k == "u":
            d["members"] = []
            d["laws"] = None
        self.objs[label] = d
        return d

    def _attach(self, e, ends):
        """Link.__init__: add each end in order."""
        for v in ends:
            self.objs[e]["ends"].append(v)
            if v is not None and e not in self.objs[v]["links"]:
                self.objs[v]["links"].append(e)

    # -- the discovery walk, mirrored from World.snapshot -----------------------------------------
    def relabel(self, ctx, temps):
        """
        `temps` maps temporary labels of objects created inside a call (and
        not returned by it) to their model dicts.  They are named in the order
        in which World.snapshot would meet them.
        """
        if not temps:
            return
        mapping = {}
        counter = [0]
        order = list(self.objs)
        pending = dict(temps)

        def see(ref):
            if ref in pending and ref not in mapping:
                d = pending[ref]
                mapping[ref] = f"{ctx}~{d['k']}{counter[0]}"
                counter[0] += 1
                order.append(ref)

        i = 0
        while i < len(order):
            lab = order[i]
            i += 1
            d = self.objs.get(lab) or pending.get(lab)
            k = d["k"]
            if k in "vu":
                for r in d["links"]:
                    see(r)
                for r in d["universes"]:
                    see(r)
            if k == "u":
                for r in d["members"]:
                    see(r)
                see(d["laws"])
            if k in "em":
                for r in d["ends"]:
                    see(r)
            if k == "L":
                see(d["applies_to"])

        def m(ref):
            return mapping.get(ref, ref)

        allobjs = list(self.objs.items()) + [
            (t, d) for t, d in pending.items() if t in mapping
        ]
        newobjs = {}
        for lab, d in allobjs:
            for key in ("links", "universes", "members", "ends"):
                if key in d:
                    d[key] = [m(r) for r in d[key]]
            for key in ("laws", "applies_to"):
                if key in d:
                    d[key] = m(d[key])
            newobjs[m(lab)] = d
        self.objs = newobjs

    # -- operations ------------------------------------------------------------------------
    def apply(self, op):
        """-> ("ret", value) | Raises | AnyOf ; mutates self.objs"""
        self.alt = None
        return getattr(self, "m_" + op["op"])(op)

    def m_flag(self, op):
        # the neighbor-caching flag is no part of the structure
        return ("ret", bool(op["on"]))

    def m_mk_vertex(self, op):
        new = op["new"]
        d = self._new_vertex(new, op.get("cls", "Vertex"))
        self.tags[new] = op.get("tag", 0)
        unis = list(dict.fromkeys(op.get("universes") or []))
        unis = [u for u in unis if not self.rejects(u, new)]
        d["universes"] = list(unis)
        for l in op.get("links") or []:
            if l not in d["links"]:
                d["links"].append(l)
                if new not in self.objs[l]["ends"]:
                    self.objs[l]["ends"].append(new)
        for u in unis:
            if new not in self.objs[u]["members"]:
                self.objs[u]["members"].append(new)
        return ("ret", new)

    def m_mk_universe(self, op):
        new = op["new"]
        d = self._new_vertex(new, op.get("cls", "Universe"), "u")
        self.tags[new] = op.get("tag", 0)
        temps = {}
        if op.get("laws") is None:
            t = f"#tmpL:{new}"
            temps[t] = {"k": "L", "cls": "UniverseLaws", "applies_to": new}
            d["laws"] = t
        else:
            raise NotImplementedError("model: Universe(laws=) belongs to C19")
        for v in op.get("vertices") or []:
            if self.rejects(new, v):
                continue
            if v not in d["members"]:
                d["members"].append(v)
                if new not in self.objs[v]["universes"]:
                    self.objs[v]["universes"].append(new)
        self.relabel(new, temps)
        return ("ret", new)

    def m_mk_crowd(self, op):
        labels = []
        for i in range(op["n"]):
            lab = f"{op['new']}.c{i}"
            self._new_vertex(lab, "Vertex")
            self.tags[lab] = 0
            labels.append(lab)
        return self.m_mk_universe({"new": op["new"], "cls": op.get("cls", "Universe"), "tag": op.get("tag", 0), "vertices": labels})

    def m_mk_edge(self, op):
        a, b = op["a"], op["b"]
        if self.is_bad(a) or self.is_bad(b):
            return Raises()
        new = op["new"]
        self.objs[new] = {"k": "e", "cls": op["cls"], "ends": []}
        self._attach(new, [a, b])
        return ("ret", new)

    def m_mk_multi(self, op):
        new = op["new"]
        self.objs[new] = {"k": "m", "cls": "MultiLink", "ends": []}
        self._attach(new, op["ends"])
        return ("ret", new)

    def m_set_end(self, op):
        e, x = op["e"], op["x"]
        ends = self.objs[e]["ends"]
        if len(ends) < 2:
            return Raises()
        idx = op["which"] - 1
        old = ends[idx]
        already = x is not None and e in self.objs[x]["links"]
        ends[idx] = x
        if old is not None and old not in ends:
            self.objs[old]["links"].remove(e)
        if x is not None and e not in self.objs[x]["links"]:
            self.objs[x]["links"].append(e)
        if already:
            # narrow relaxation (DESIGN 6.5): the edge may keep its place in
            # the assigned vertex's links, or move to the end
            alt = self.copy_state()
            alt[x]["links"].remove(e)
            alt[x]["links"].append(e)
            self.alt = alt
        return ("ret", None)

    def _link_cls(self, op):
        fn = op.get("fn", "link_from_to")
        if fn == "link_directed":
            return "DirectedEdge"
        if fn == "link_undirected":
            return "UnDirectedEdge"
        return op["cls"]

    def m_link(self, op):
        a, b = op["a"], op["b"]
        if op.get("dontdup"):
            # the scan goes through a's links in order and stops at the first
            # joining one; a link it cannot ask (no `other`, fewer than two
            # ends) met before that makes the call raise
            joining = []
            for l in self.objs[a]["links"]:
                usable = self.objs[l]["k"] == "e" and len(self.objs[l]["ends"]) >= 2
                if not usable:
                    if not joining:
                        return Raises()
                    continue
                if self.other(l, a) == b:
                    joining.append(l)
            if joining:
                return AnyOf(joining)
        new = op["new"]
        self.objs[new] = {"k": "e", "cls": self._link_cls(op), "ends": []}
        self._attach(new, [a, b])
        return ("ret", new)

    def m_unlink(self, op):
        a, b = op["a"], op["b"]
        joining = []
        for l in self.objs[a]["links"]:
            if self.objs[l]["k"] != "e" or len(self.objs[l]["ends"]) < 2:
                return Raises()
            if self.other(l, a) == b:
                joining.append(l)
        for l in joining:
            self.objs[l]["ends"] = [
                v for v in self.objs[l]["ends"] if v not in (a, b)
            ]
            for v in dict.fromkeys((a, b)):
                if l in self.objs[v]["links"]:
                    self.objs[v]["links"].remove(l)
        if op.get("destroy", True):
            return ("ret", None)
        return ("ret", {"set": sorted(joining)})

    def m_add_vertex(self, op):
        e, v = op["e"], op["v"]
        self.objs[e]["ends"].append(v)
        if v is not None and e not in self.objs[v]["links"]:
            self.objs[v]["links"].append(e)
        return ("ret", None)

    def m_unlink_from(self, op):
        e, v = op["e"], op["v"]
        ends = self.objs[e]["ends"]
        if v in ends:
            self.objs[e]["ends"] = [x for x in ends if x != v]
            if v is not None and e in self.objs[v]["links"]:
                self.objs[v]["links"].remove(e)
        return ("ret", None)

    def m_add_to_link(self, op):
        v, e = op["v"], op["e"]
        if e not in self.objs[v]["links"]:
            self.objs[v]["links"].append(e)
            if v not in self.objs[e]["ends"]:
                self.objs[e]["ends"].append(v)
        return ("ret", None)

    def m_remove_from_link(self, op):
        v, e = op["v"], op["e"]
        if e in self.objs[v]["links"]:
            self.objs[v]["links"].remove(e)
            self.objs[e]["ends"] = [x for x in self.objs[e]["ends"] if x != v]
        return ("ret", None)

    # universes ---------------------------------------------------------------------
    def raises_after(self, u, v):
        """egsim.classes.RaisingUniverse: add_vertex records the vertex, then raises for tag 4."""
        return self.objs[u].get("cls") == "RaisingUniverse" and self.tags.get(v) == 4

    def _join(self, u, v):
        if self.rejects(u, v):
            return
        if v not in self.objs[u]["members"]:
            self.objs[u]["members"].append(v)
        if u not in self.objs[v]["universes"]:
            self.objs[v]["universes"].append(u)

    def m_uni_add(self, op):
        self._join(op["u"], op["v"])
        if self.raises_after(op["u"], op["v"]):
            return Raises()  # after the membership was recorded on both sides
        return ("ret", None)

    def m_v_add_uni(self, op):
        u, v = op["u"], op["v"]
        if self.rejects(u, v):
            return ("ret", None)
        fails = self.raises_after(u, v) and v not in self.objs[u]["members"]
        # vertex side first, then the universe side
        if u not in self.objs[v]["universes"]:
            self.objs[v]["universes"].append(u)
        if v not in self.objs[u]["members"]:
            self.objs[u]["members"].append(v)
        if fails:
            return Raises()  # the override raised once both sides were recorded
        return ("ret", None)

    def readmits(self, u, v):
        """egsim.classes.SanctuaryUniverse: a removed vertex tagged 3 is admitted again at once."""
        return self.objs[u].get("cls") == "SanctuaryUniverse" and self.tags.get(v) == 3

    def m_uni_remove(self, op):
        u, v = op["u"], op["v"]
        if v not in self.objs[u]["members"]:
            return Raises()
        self.objs[u]["members"].remove(v)
        if u in self.objs[v]["universes"]:
            self.objs[v]["universes"].remove(u)
        if self.readmits(u, v):
            self._join(u, v)
        return ("ret", None)

    def m_exodus(self, op):
        from egsim.ops import exodus_selection

        u = op["u"]
        for v in exodus_selection(list(self.objs[u]["members"]), op):
            if op.get("side") == "v":
                r = self.m_v_remove_uni({"u": u, "v": v})
            else:
                r = self.m_uni_remove({"u": u, "v": v})
            if isinstance(r, Raises):
                return r
        return ("ret", None)

    def m_v_remove_uni(self, op):
        u, v = op["u"], op["v"]
        if u not in self.objs[v]["universes"]:
            return Raises()
        self.objs[v]["universes"].remove(u)
        if v in self.objs[u]["members"]:
            self.objs[u]["members"].remove(v)
            if self.readmits(u, v):
                self._join(u, v)
        return ("ret", None)

    # builders -------------------------------------------------------------------------------
    def _new_universe_with_default_laws(self, new, temps):
        d = self._new_vertex(new, "Universe", "u")
        t = f"#tmpL:{new}"
        temps[t] = {"k": "L", "cls": "UniverseLaws", "applies_to": new}
        d["laws"] = t
        return d

    def _builder_link(self, temps, n, cls, a, b):
        t = f"#tmpE:{n}"
        temps[t] = {"k": "e", "cls": cls, "ends": [a, b]}
        self.objs[a]["links"].append(t)
        if b != a:
            self.objs[b]["links"].append(t)
        return t

    def m_adj_dict(self, op):
        new = op["new"]
        cls = op.get("cls") or "UnDirectedEdge"
        temps = {}
        self._new_universe_with_default_laws(new, temps)
        n = 0
        for key, vals in op["adj"]:
            self._join_vertex_first(new, key)
            for val in vals:
                self._builder_link(temps, n, cls, key, val)
                n += 1
                self._join_vertex_first(new, val)
        self.relabel(new, temps)
        return ("ret", new)

    def _join_vertex_first(self, u, v):
        if u not in self.objs[v]["universes"]:
            self.objs[v]["universes"].append(u)
        if v not in self.objs[u]["members"]:
            self.objs[u]["members"].append(v)

    def m_adj_matrix(self, op):
        matrix, verts = op["matrix"], op["verts"]
        n = len(matrix)
        if len(verts) != n or any(len(row) != n for row in matrix):
            return Raises("ValueError")
        new = op["new"]
        cls = op.get("cls") or "DirectedEdge"
        temps = {}
        self._new_universe_with_default_laws(new, temps)
        for v in verts:
            self._join_vertex_first(new, v)
        k = 0
        for i, row in enumerate(matrix):
            for j, cell in enumerate(row):
                if O.cell_truth(cell):
                    self._builder_link(temps, k, cls, verts[i], verts[j])
                    k += 1
        self.relabel(new, temps)
        return ("ret", new)


def compare_outcome(expected, out):
    """-> None if the real outcome is acceptable, else a short reason."""
    if isinstance(expected, Raises):
        if "exc" not in out:
            return "call returned but must raise"
        if expected.cls is not None and out["exc"] != expected.cls:
            return f"raised {out['exc']}, must raise {expected.cls}"
        return None
    if "exc" in out:
        return f"raised {out['exc']} but must return"
    if isinstance(expected, AnyOf):
        if out["ret"] not in expected.labels:
            return f"returned {out['ret']}, must be one of {expected.labels}"
        return None
    if expected[1] != out["ret"]:
        return f"returned {out['ret']}, must return {expected[1]}"
    return None


def first_difference(snap, model_objs):
    """A small, readable description of where two states differ."""
    for lab in sorted(set(snap) | set(model_objs)):
        a, b = snap.get(lab), model_objs.get(lab)
        if a != b:
            if a is None:
                return {"object": lab, "real": None, "model": b}
            if b is None:
                return {"object": lab, "real": a, "model": None}
            for key in sorted(set(a) | set(b)):
                if a.get(key) != b.get(key):
                    return {
                        "object": lab,
                        "field": key,
                        "real": a.get(key),
                        "model": b.get(key),
                    }
    return None
