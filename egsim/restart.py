"""
The one real process boundary (DESIGN 3.5): continue a history in a fresh
interpreter from nothing but a capsule.

Modes
  exec    /venv/bin/python -B egsim/child_main.py <capsule file>   (a new interpreter)
  zygote  a helper process forked before this process ever built a vertex,
          forking one child per restart (a process that has imported but
          never used edgegraph is, to edgegraph, a fresh interpreter)
  inproc  load in the same process (exercises the round trip, not the loss of
          class-level state)
"""

import json
import os
import pickle
import select
import shutil
import struct
import subprocess
import sys
import tempfile

import egsim

_SCRATCH = None
_ZYGOTE = None  # (pid, wfd, rfd)
CHILD_TIMEOUT_S = 120


def scratch_dir():
    global _SCRATCH
    if _SCRATCH is None or not os.path.isdir(_SCRATCH) or _SCRATCH_PID != os.getpid():
        base = "/dev/shm" if os.path.isdir("/dev/shm") else tempfile.gettempdir()
        _set_scratch(tempfile.mkdtemp(prefix=f"egsim-{os.getpid()}-", dir=base))
    return _SCRATCH


_SCRATCH_PID = None


def _set_scratch(path):
    global _SCRATCH, _SCRATCH_PID
    _SCRATCH = path
    _SCRATCH_PID = os.getpid()


def cleanup_scratch():
    global _SCRATCH
    if _SCRATCH is not None and _SCRATCH_PID == os.getpid():
        shutil.rmtree(_SCRATCH, ignore_errors=True)
        _SCRATCH = None


def _payload(pid, cfg, capsule, op, rng_state, rest_ops, budget, run_seed):
    return {
        "pid": pid,
        "cfg": cfg,
        "capsule": capsule,
        "op": op,
        "rng_state": rng_state,
        "rest_ops": rest_ops,
        "budget": budget,
        "run_seed": run_seed,
    }


def _resume(payload):
    """Runs on the far side.  -> plain result dict"""
    if "rpc" in payload:
        import importlib

        mod, fn = payload["rpc"].split(":")
        return getattr(importlib.import_module(mod), fn)(payload)
    from egsim import engine

    prop = engine.get_property(payload["pid"])
    st = payload["rng_state"]
    if st is not None:
        st = (st[0], tuple(st[1]), st[2])
    res = engine.run_resumed(
        prop,
        payload["cfg"],
        payload["capsule"],
        payload["op"],
        st,
        payload["rest_ops"],
        payload["budget"],
        payload["run_seed"],
    )
    return res.to_json()


def run_child(pid, cfg, capsule, op, rng_state, rest_ops, budget, run_seed):
    payload = _payload(pid, cfg, capsule, op, rng_state, rest_ops, budget, run_seed)
    mode = op.get("mode", "exec")
    forced = os.environ.get("EGSIM_RESTART_MODE")
    if forced and mode != "inproc":
        mode = forced  # self-test only: same log, different kind of fresh process
    if mode == "inproc":
        return _resume(payload)
    if mode == "zygote":
        return _zygote_call(payload)
    if mode == "exec":
        return _exec_call(payload, op.get("hashseed", 0))
    raise egsim.HarnessError(f"unknown restart mode {mode}")


# ------------------------------------------------------------------- exec
def _exec_call(payload, hashseed):
    d = scratch_dir()
    fd, path = tempfile.mkstemp(prefix="capsule-", suffix=".pkl", dir=d)
    with os.fdopen(fd, "wb") as f:
        pickle.dump(payload, f, protocol=4)
    env = dict(os.environ)
    env["PYTHONHASHSEED"] = str(hashseed)
    env["VERIF_REPO_ROOT"] = egsim.REPO_ROOT
    try:
        cp = subprocess.run(
            [
                sys.executable,
                "-B",
                os.path.join(egsim.VERIF_ROOT, "egsim", "child_main.py"),
                path,
            ],
            capture_output=True,
            env=env,
            timeout=CHILD_TIMEOUT_S,
            check=False,
        )
    except subprocess.TimeoutExpired:
        raise egsim.HarnessError("exec child timed out") from None
    finally:
        try:
            os.unlink(path)
        except OSError:
            pass
    if cp.returncode != 0:
        raise egsim.HarnessError(
            f"exec child failed rc={cp.returncode}: {cp.stderr.decode()[-2000:]}"
        )
    try:
        return json.loads(cp.stdout.decode().rsplit("\n===RESULT===\n", 1)[1])
    except (IndexError, ValueError):
        raise egsim.HarnessError(
            f"exec child gave no result: {cp.stdout.decode()[-500:]} {cp.stderr.decode()[-1500:]}"
        ) from None


# ------------------------------------------------------------------- zygote
def _send(fd, data: bytes):
    os.write(fd, struct.pack("!Q", len(data)))
    view = memoryview(data)
    while view:
        n = os.write(fd, view)
        view = view[n:]


def _recv_exact(fd, n, timeout=None):
    buf = bytearray()
    while len(buf) < n:
        if timeout is not None:
            r, _, _ = select.select([fd], [], [], timeout)
            if not r:
                raise TimeoutError()
        chunk = os.read(fd, n - len(buf))
        if not chunk:
            raise EOFError()
        buf.extend(chunk)
    return bytes(buf)


def _recv(fd, timeout=None):
    (n,) = struct.unpack("!Q", _recv_exact(fd, 8, timeout))
    return _recv_exact(fd, n, timeout)


def start_zygote():
    """
    Must be called before this process has constructed any edgegraph object
    (the runner calls it first thing in a freshly forked chunk process).
    """
    global _ZYGOTE
    if _ZYGOTE is not None and _ZYGOTE[3] == os.getpid():
        return
    req_r, req_w = os.pipe()
    rsp_r, rsp_w = os.pipe()
    pid = os.fork()
    if pid == 0:
        os.close(req_w)
        os.close(rsp_r)
        _zygote_loop(req_r, rsp_w)
        os._exit(0)
    os.close(req_r)
    os.close(rsp_w)
    _ZYGOTE = (pid, req_w, rsp_r, os.getpid())


def _zygote_loop(req_r, rsp_w):
    import signal

    signal.signal(signal.SIGALRM, signal.SIG_DFL)
    signal.setitimer(signal.ITIMER_REAL, 0)
    while True:
        try:
            data = _recv(req_r)
        except EOFError:
            return
        pid = os.fork()
        if pid == 0:
            rc = 0
            try:
                payload = pickle.loads(data)
                out = json.dumps(_resume(payload)).encode()
            except BaseException as exc:  # pylint: disable=broad-except
                import traceback

                out = json.dumps(
                    {
                        "harness_error": "".join(
                            traceback.format_exception(
                                type(exc), exc, exc.__traceback__
                            )
                        )
                    }
                ).encode()
            try:
                _send(rsp_w, out)
            finally:
                os._exit(rc)
        _, status = os.waitpid(pid, 0)
        if status != 0:
            _send(
                rsp_w,
                json.dumps(
                    {"harness_error": f"zygote child died, status {status}"}
                ).encode(),
            )


def shutdown_zygote():
    global _ZYGOTE
    if _ZYGOTE is not None and _ZYGOTE[3] == os.getpid():
        pid, w, r, _ = _ZYGOTE
        try:
            os.close(w)
            os.close(r)
        except OSError:
            pass
        try:
            os.waitpid(pid, 0)
        except ChildProcessError:
            pass
    _ZYGOTE = None
    cleanup_scratch()


def zygote_available():
    return _ZYGOTE is not None and _ZYGOTE[3] == os.getpid()


def _zygote_call(payload):
    if not zygote_available():
        # no clean zygote in this process (e.g. a replay): use a real exec
        return _exec_call(payload, payload["op"].get("hashseed", 0))
    _, w, r, _ = _ZYGOTE
    _send(w, pickle.dumps(payload, protocol=4))
    try:
        out = json.loads(_recv(r, timeout=CHILD_TIMEOUT_S).decode())
    except TimeoutError:
        raise egsim.HarnessError("zygote child timed out") from None
    if "harness_error" in out:
        raise egsim.HarnessError("zygote child: " + out["harness_error"])
    return out


def call_rpc(mode, target, payload, hashseed=0):
    """
    Run `module:function(payload)` on the far side of a process boundary
    (mode: inproc | zygote | exec) and return its JSON-able result.
    """
    payload = dict(payload)
    payload["rpc"] = target
    payload.setdefault("op", {"hashseed": hashseed})
    forced = os.environ.get("EGSIM_RESTART_MODE")
    if forced and mode != "inproc":
        mode = forced
    if mode == "inproc":
        return _resume(payload)
    if mode == "zygote":
        return _zygote_call(payload)
    return _exec_call(payload, hashseed)
