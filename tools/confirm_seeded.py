#!/usr/bin/env python3
"""
Confirms sub-agent changes independently and files the confirmed ones under
/verif/seeded/<id>/:  in a scratch export of /repo HEAD (under /dev/shm, removed
afterwards) the demo must pass on the clean tree, the patch must apply, the
repository's whole test suite must pass with it, and the demo must fail with it.
"""
import concurrent.futures as cf
import json
import os
import shutil
import subprocess
import sys
import tempfile

REPO = "/repo"
OUT = "/verif/seeded"


def run(cmd, **kw):
    return subprocess.run(cmd, capture_output=True, text=True, **kw)


def confirm(src):
    import re

    name = re.search(r"C\d\d", os.path.basename(os.path.dirname(src))).group(0) + "-" + src.rstrip("/")[-1].lower()
    d = tempfile.mkdtemp(prefix="egsim-confirm-", dir="/dev/shm")
    res = {"name": name, "src": src}
    try:
        subprocess.run(f"git -C {REPO} archive HEAD | tar -x -C {d}", shell=True, check=True)
        subprocess.run(["git", "init", "-q"], cwd=d, check=True)
        env = dict(os.environ, EG_ROOT=d, PYTHONDONTWRITEBYTECODE="1")
        demo = os.path.join(src, "demo.py")
        c0 = run(["/venv/bin/python", "-B", demo], env=env, cwd=d, timeout=600)
        res["demo_clean_rc"] = c0.returncode
        ap = run(["git", "apply", os.path.join(src, "patch.diff")], cwd=d)
        res["apply_rc"] = ap.returncode
        if ap.returncode != 0:
            res["apply_err"] = ap.stderr[-300:]
            return res
        t = run(["/venv/bin/python", "-m", "pytest", "-q", "-p", "no:cacheprovider", "-x", "-n", "4"], cwd=d, timeout=1500)
        res["tests_rc"] = t.returncode
        res["tests_tail"] = (t.stdout.strip().splitlines() or [""])[-1]
        c1 = run(["/venv/bin/python", "-B", demo], env=env, cwd=d, timeout=600)
        res["demo_patched_rc"] = c1.returncode
        res["demo_patched_tail"] = (c1.stdout + c1.stderr).strip()[-300:]
        ok = res["demo_clean_rc"] == 0 and res["tests_rc"] == 0 and res["demo_patched_rc"] != 0
        res["confirmed"] = ok
        if ok:
            out = os.path.join(OUT, name)
            os.makedirs(out, exist_ok=True)
            shutil.copy(os.path.join(src, "patch.diff"), out)
            shutil.copy(demo, out)
            meta = json.load(open(os.path.join(src, "meta.json")))
            meta2 = {
                "property": meta.get("property"),
                "breaks": meta.get("summary"),
                "needs_to_manifest": meta.get("needs_to_manifest"),
                "files": meta.get("files"),
                "origin": "independent sub-agent given only the property text and a scratch worktree",
                "confirmed_by_me": {
                    "base_commit": run(["git", "-C", REPO, "rev-parse", "--short", "HEAD"]).stdout.strip(),
                    "demo_on_clean_tree_rc": res["demo_clean_rc"],
                    "test_suite_with_change": res["tests_tail"],
                    "demo_with_change_rc": res["demo_patched_rc"],
                    "what_i_ran": "scratch export of /repo HEAD under /dev/shm: demo.py (rc 0), git apply patch.diff, "
                    "/venv/bin/python -m pytest -q -p no:cacheprovider -x -n 4 (all pass), demo.py (rc != 0); scratch removed",
                },
                "agent_verified": meta.get("verified"),
            }
            json.dump(meta2, open(os.path.join(out, "meta.json"), "w"), indent=1)
        return res
    finally:
        shutil.rmtree(d, ignore_errors=True)


def main():
    srcs = sys.argv[1:]
    with cf.ThreadPoolExecutor(4) as ex:
        for r in ex.map(confirm, srcs):
            print(json.dumps({k: r.get(k) for k in ("name", "demo_clean_rc", "apply_rc", "tests_rc", "tests_tail", "demo_patched_rc", "confirmed")}))


if __name__ == "__main__":
    main()
