"""
C18 -- true singletons: at most one live instance per class between clears
(DESIGN 4/C18).

The TrueSingleton table is one process-global dict shared by every singleton
class; the property is about histories of constructions and targeted / global
clears over related classes (T, its subclass T1, an unrelated S, a subclass of
the subclass T2).
Model: cls -> instance label | none.
"""

import abc
import collections
import itertools

import egsim  # noqa: F401
from egsim import engine, gen
from egsim.props.common import deep_tier
from egsim.seams import InjectedFault, WarningsAsErrors
from egsim.props.c17 import ARG_POOL, decode_arg
from edgegraph.structure import singleton

CLASS_NAMES = ["T", "T1", "T2", "S", "F", "Z", "D", "P", "P1", "R", "K", "K1", "Q"]
# classes whose __init__ accepts only (name="k", *, verbose=False)
RESTRICTIVE = ("K", "K1")


def fits(cls, args, kwargs):
    """Would the restrictive __init__ of K / K1 accept this call?"""
    if cls not in RESTRICTIVE:
        return True
    return len(args) <= 1 and set(kwargs) <= {"verbose", "name"} and not (args and "name" in kwargs)


def norm_args(cls, args, kwargs):
    """What __init__ records for a call (K / K1 record their bound parameters)."""
    if cls not in RESTRICTIVE:
        return (tuple(args), dict(kwargs))
    name = args[0] if args else kwargs.get("name", "k")
    return ((name,), {"verbose": kwargs.get("verbose", False)})


def make_classes(hook=None):
    tokens = itertools.count(1)
    hook = hook if hook is not None else {"fn": None}

    def body(name, **extra):
        def __init__(self, *args, **kwargs):
            self.init_count = getattr(self, "init_count", 0) + 1
            self.init_args = (args, dict(kwargs))
            # one fresh token per run of __init__: lets the harness recognise
            # an instance without holding a reference to it
            self.token = next(tokens)
            fn = hook["fn"]
            # the fault is this constructor's own, not that of one it calls
            fails = bool(hook.get("raise"))
            hook["raise"] = False
            if fn is not None:
                hook["fn"] = None  # one shot: user code in the middle of a construction
                fn(self)
            if fails:
                raise InjectedFault("__init__ failed")

        d = {"__init__": __init__, "__qualname__": name}
        d.update(extra)
        return d

    hook["body"] = body
    M = singleton.TrueSingleton
    T = M("T", (object,), body("T"))
    T1 = M("T1", (T,), body("T1"))
    T2 = M("T2", (T1,), body("T2"))
    S = M("S", (object,), body("S"))
    # instances with their own truth value (an empty registry-like singleton)
    F = M("F", (object,), body("F", __bool__=lambda self: False))
    Z = M("Z", (object,), body("Z", __len__=lambda self: 0))

    # a class whose metaclass DERIVES from TrueSingleton (e.g. combined with ABCMeta)
    class DerivedMeta(abc.ABCMeta, singleton.TrueSingleton):
        pass

    D = DerivedMeta("D", (object,), body("D"))

    # a front class whose __new__ is a factory returning an instance of one of
    # its own subclasses (the pathlib.Path -> PosixPath pattern)
    holder = {}

    def front_new(cls, *args, **kwargs):
        target = holder["P1"] if cls is holder["P"] else cls
        return object.__new__(target)

    P = M("P", (object,), body("P", __new__=front_new))
    holder["P"] = P
    P1 = M("P1", (P,), body("P1"))
    holder["P1"] = P1
    # a class that keeps tables of its own under names a library might also pick
    R = M(
        "R",
        (object,),
        body("R", _instances={}, instances={}, _instance=None, _registry={}, _singleton_instances={}),
    )
    # a class (and a subclass) whose __init__ has an ordinary, restrictive
    # signature: calls that do not fit it are fine while an instance is on file
    # ("whatever arguments are passed") and fail in __init__ otherwise
    def restrictive(name):
        ns = body(name)
        inner = ns["__init__"]

        def __init__(self, name="k", *, verbose=False):
            inner(self, name, verbose=verbose)

        ns["__init__"] = __init__
        return ns

    # a class whose instances accept no attributes beyond the ones it declares
    Q = M("Q", (object,), body("Q", __slots__=("init_count", "init_args", "token")))
    K = M("K", (object,), restrictive("K"))
    K1 = M("K1", (K,), restrictive("K1"))
    return {"T": T, "T1": T1, "T2": T2, "S": S, "F": F, "Z": Z, "D": D, "P": P, "P1": P1, "R": R, "K": K, "K1": K1, "Q": Q}


class St:
    def __init__(self, cfg):
        self.cfg = cfg
        singleton.clear_true_singleton()
        self.hook = {"fn": None}
        self.classes = make_classes(self.hook)
        self.inst = {}  # label -> object (None when the run holds no references)
        self.label = {}  # id(obj) -> label (only when references are held)
        self.token = {}  # label -> token
        self.tok2lab = {}
        self.hold = bool(cfg.get("hold_refs", True))
        self.first_args = {}
        self.model = {c: None for c in CLASS_NAMES}
        self.namer = gen.Namer()
        self.stats = collections.Counter()
        self.mutations = 0
        self.cleared_once = set()
        self.defined = []  # classes defined in mid-history

    def lab(self, obj):
        if obj is None:
            return None
        tok = getattr(obj, "token", None)
        return self.tok2lab.get(tok, f"?{type(obj).__name__}")

    def same(self, obj, lab):
        """Is obj the instance the model calls `lab`?"""
        if getattr(obj, "token", None) != self.token[lab]:
            return False
        if self.hold and obj is not self.inst[lab]:
            return False
        return True


class C18(engine.Property):
    id = "C18"
    title = "true singletons: at most one live instance per class between clears"
    max_steps = 60
    budget = {
        "quick": {"runs": 150000, "wall_cap_s": 600},
        "thorough": {"runs": 5000000, "wall_cap_s": 5400},
    }
    rule = (
        "one evaluation = one seeded history of constructions (arbitrary positional / "
        "keyword arguments) and targeted / global clears over a singleton class, two levels "
        "of subclasses, unrelated classes, falsy-instance classes, a derived metaclass, a factory "
        "__new__ pair and classes that come into being in mid-history under an existing bare name, checked against a cls->instance model after "
        "every step with every class's live instance re-checked; distinct = distinct "
        "event-log digest; non-trivial = at least 3 constructions-or-clears that changed the table"
    )
    assumptions = [
        "single-threaded use",
        "the process-global table is emptied through clear_true_singleton() at the start of each run",
        "histories are sampled, not enumerated",
    ]
    expected_probes = [
        "construct-while-live",
        "construct-after-clear",
        "clear-class-without-instance",
        "global-clear-with-several-live",
        "targeted-clear-with-others-live",
        "subclass-constructed-while-parent-live",
        "parent-constructed-while-subclass-live",
        "falsy-instance-constructed-while-live",
        "no-reference-held-construct-while-live",
        "user-code-during-construction:clear",
        "user-code-during-construction:clear_all",
        "user-code-during-construction:construct",
        "construction-failed-in-init",
        "derived-metaclass-class-cleared-while-others-live",
        "factory-new-front-class-constructed",
        "global-clear-spelled-with-explicit-None",
        "warnings-as-errors-during-the-call",
        "singleton-class-defined-in-mid-history",
        "class-defined-while-others-live",
        "call-that-does-not-fit-init-while-no-instance",
        "call-that-does-not-fit-init-while-live",
        "user-code-during-a-construction-that-then-fails:construct",
        "user-code-during-a-construction-that-then-fails:clear",
    ]

    def make_config(self, rng):
        k = rng.randint(1, len(CLASS_NAMES))
        return {
            "steps": gen.geometric_steps(rng, 3, 50, 14) if not (deep_tier() and rng.random() < 0.25) else gen.geometric_steps(rng, 30, 170, 60),
            "deep_bounds": True,
            "classes": sorted(rng.sample(CLASS_NAMES, k)),
            "p_clear": rng.choice([0.1, 0.25, 0.4]),
            "p_clear_all": rng.choice([0.0, 0.05, 0.15]),
            "p_kwargs": rng.choice([0.0, 0.3]),
            # does the caller keep the objects it was given?
            "hold_refs": rng.random() < 0.6,
            "p_during": rng.choice([0.0, 0.0, 0.1, 0.3]),
            "p_init_fails": rng.choice([0.0, 0.0, 0.08, 0.2]),
            "p_define": rng.choice([0.0, 0.0, 0.05, 0.12]),
            "p_w_error": rng.choice([0.0, 0.0, 0.2]),
        }

    def start(self, cfg):
        return St(cfg)

    def next_op(self, rng, cfg, st):
        if cfg.get("p_define") and len(st.defined) < 3 and rng.random() < cfg["p_define"]:
            # a new singleton class comes into being in mid-history (a module
            # imported late, a class statement in a function): same module and
            # same bare name as an existing class, another qualified name
            like = rng.choice(cfg["classes"])
            return {"op": "define", "name": st.namer.new("X"), "like": like, "sub": rng.random() < 0.4}
        r = rng.random()
        classes = cfg["classes"] + st.defined
        if r < cfg["p_clear_all"]:
            # "all" is the default and also what an explicit None means
            return {"op": "clear_all", "spell": rng.choice(["bare", "bare", "none", "kw-none"])}
        if r < cfg["p_clear_all"] + cfg["p_clear"]:
            return {"op": "clear", "cls": rng.choice(classes)}
        args = [rng.choice(ARG_POOL) for _ in range(rng.randint(0, 2))]
        kwargs = []
        if rng.random() < cfg["p_kwargs"]:
            # any keyword name is the caller's to choose -- including ones a
            # library might use for its own parameters
            kwargs = [[rng.choice(["x", "y", "key", "mapping", "factory", "instance", "name", "value", "verbose", "default"]), rng.choice(ARG_POOL)]]
        cls = rng.choice(classes)
        if cls in RESTRICTIVE and rng.random() < 0.5:
            # a call the class's own signature accepts
            args = args[: rng.randint(0, 1)]
            kwargs = [["verbose", rng.choice(ARG_POOL)]] if kwargs else []
        op = {
            "op": "construct",
            "cls": cls,
            "args": args,
            "kwargs": kwargs,
            "new": st.namer.new("i"),
        }
        if rng.random() < cfg.get("p_w_error", 0.0):
            # the application runs with warnings turned into errors
            op["w_error"] = True
        if rng.random() < cfg.get("p_init_fails", 0.0):
            op["init_fails"] = True
        if rng.random() < cfg.get("p_during", 0.0) * (0.5 if op.get("init_fails") else 1.0):
            r = rng.random()
            other = rng.choice(cfg["classes"])
            if r < 0.35:
                op["during"] = {"op": "clear", "cls": rng.choice([op["cls"], other])}
            elif r < 0.55:
                op["during"] = {"op": "clear_all"}
            elif other != op["cls"]:
                op["during"] = {"op": "construct", "cls": other, "args": [], "kwargs": [], "new": st.namer.new("i")}
        return op

    def execute(self, st, op):
        k = op["op"]
        s = st.stats
        s["op:" + k] += 1
        out = {"ret": None}
        v = None
        if k in ("construct", "clear") and op["cls"] not in st.classes:
            return None, None
        if k == "define":
            if op["name"] in st.classes or op["like"] not in st.classes:
                return None, None
            like = st.classes[op["like"]]
            bare = like.__name__
            ns = st.hook["body"](f"Outer{len(st.defined)}.{bare}")
            bases = (like,) if op.get("sub") and op["like"] not in ("P", "P1") else (object,)
            try:
                klass = type(like)(bare, bases, ns)
            except Exception as exc:  # pylint: disable=broad-except
                return {"exc": type(exc).__name__}, engine.viol(
                    "C18/class-definition-raised", {"op": op, "exc": type(exc).__name__}
                )
            st.classes[op["name"]] = klass
            st.model[op["name"]] = None
            st.defined.append(op["name"])
            s["probe:singleton-class-defined-in-mid-history"] += 1
            if any(st.model[c] for c in st.model):
                s["probe:class-defined-while-others-live"] += 1
            return {"ret": klass.__qualname__}, self._recheck(st, op)
        if k == "construct":
            cls = op["cls"]
            if op["new"] in st.inst:
                return None, None
            klass = st.classes[cls]
            args = tuple(decode_arg(a) for a in op["args"])
            kwargs = {n: decode_arg(x) for n, x in op["kwargs"]}
            live = st.model[cls]
            if live is not None:
                s["probe:construct-while-live"] += 1
                if cls in ("F", "Z"):
                    s["probe:falsy-instance-constructed-while-live"] += 1
                if not st.hold:
                    s["probe:no-reference-held-construct-while-live"] += 1
            elif cls in st.cleared_once:
                s["probe:construct-after-clear"] += 1
            if cls == "P":
                s["probe:factory-new-front-class-constructed"] += 1
            if cls in ("T1", "T2") and st.model["T"] is not None:
                s["probe:subclass-constructed-while-parent-live"] += 1
            if cls == "T" and (st.model["T1"] or st.model["T2"]):
                s["probe:parent-constructed-while-subclass-live"] += 1
            unfit = not fits(cls, args, kwargs)
            if unfit and live is None:
                s["probe:call-that-does-not-fit-init-while-no-instance"] += 1
            elif unfit:
                s["probe:call-that-does-not-fit-init-while-live"] += 1
            if (op.get("init_fails") or unfit) and live is None:
                s["fault:init-raises"] += 1
                s["probe:construction-failed-in-init"] += 1
                st.hook["raise"] = not unfit
                during = op.get("during")
                if during is not None and not unfit and during.get("cls", cls) in st.classes:
                    # user code runs inside the constructor, which then fails
                    s["probe:user-code-during-a-construction-that-then-fails:" + during["op"]] += 1
                    s["fault:reentrant-call-during-init"] += 1
                    st.hook["fn"] = lambda _self, d=during: self._nested(st, d)
                try:
                    klass(*args, **kwargs)
                    out = {"ret": "returned"}
                except Exception as exc:  # pylint: disable=broad-except
                    out = {"exc": type(exc).__name__}
                st.hook["raise"] = False
                st.hook["fn"] = None
                if "exc" not in out:
                    return out, engine.viol("C18/failed-init-swallowed", {"op": op})
                # nothing was constructed: the class still has no instance, and
                # every other class keeps its own
                return out, self._recheck(st, op) or self._still_empty(st, op, cls)
            during = op.get("during")
            if during is not None and live is None and during.get("cls", cls) in st.classes:
                s["probe:user-code-during-construction:" + during["op"]] += 1
                s["fault:reentrant-call-during-init"] += 1
                st.hook["fn"] = lambda _self, d=during: self._nested(st, d)
            if op.get("w_error"):
                s["probe:warnings-as-errors-during-the-call"] += 1
                s["fault:process-wide-setting-changed"] += 1
            try:
                with WarningsAsErrors(bool(op.get("w_error"))):
                    obj = klass(*args, **kwargs)
            except Exception as exc:  # pylint: disable=broad-except
                st.hook["fn"] = None
                return {"exc": type(exc).__name__}, engine.viol(
                    "C18/construction-raised", {"op": op, "exc": type(exc).__name__}
                )
            if live is not None:
                out = {"ret": st.lab(obj)}
                if not st.same(obj, live):
                    v = engine.viol(
                        "C18/second-live-instance-between-clears",
                        {"op": op, "expected": live, "got": st.lab(obj)},
                    )
                elif obj.init_count != 1:
                    v = engine.viol(
                        "C18/init-ran-again", {"op": op, "init_count": obj.init_count}
                    )
                elif obj.init_args != st.first_args[live]:
                    v = engine.viol(
                        "C18/init-arguments-not-first-call's", {"op": op}
                    )
            else:
                known = st.tok2lab.get(getattr(obj, "token", None))
                if known is not None:
                    out = {"ret": known}
                    v = engine.viol(
                        "C18/construct-after-clear-returned-old-instance",
                        {"op": op, "got": known},
                    )
                else:
                    lab = op["new"]
                    st.inst[lab] = obj if st.hold else None
                    st.token[lab] = getattr(obj, "token", None)
                    st.tok2lab[st.token[lab]] = lab
                    st.model[cls] = lab
                    st.first_args[lab] = norm_args(cls, args, kwargs)
                    st.mutations += 1
                    out = {"ret": lab}
                    if obj.init_count != 1 or obj.init_args != norm_args(cls, args, kwargs):
                        v = engine.viol(
                            "C18/init-not-run-once-with-the-call's-arguments",
                            {"op": op, "init_count": obj.init_count},
                        )
        elif k == "clear":
            cls = op["cls"]
            if st.model[cls] is None:
                s["probe:clear-class-without-instance"] += 1
            if any(st.model[c] for c in list(st.model) if c != cls):
                s["probe:targeted-clear-with-others-live"] += 1
                if cls == "D":
                    s["probe:derived-metaclass-class-cleared-while-others-live"] += 1
            try:
                singleton.clear_true_singleton(st.classes[cls])
            except Exception as exc:  # pylint: disable=broad-except
                return {"exc": type(exc).__name__}, engine.viol(
                    "C18/clear-raised", {"op": op, "exc": type(exc).__name__}
                )
            if st.model[cls] is not None:
                st.mutations += 1
            st.model[cls] = None
            st.cleared_once.add(cls)
        elif k == "clear_all":
            if sum(1 for c in list(st.model) if st.model[c]) >= 2:
                s["probe:global-clear-with-several-live"] += 1
            try:
                if op.get("spell") == "none":
                    s["probe:global-clear-spelled-with-explicit-None"] += 1
                    singleton.clear_true_singleton(None)
                elif op.get("spell") == "kw-none":
                    s["probe:global-clear-spelled-with-explicit-None"] += 1
                    singleton.clear_true_singleton(cls=None)
                else:
                    singleton.clear_true_singleton()
            except Exception as exc:  # pylint: disable=broad-except
                return {"exc": type(exc).__name__}, engine.viol(
                    "C18/clear-raised", {"op": op, "exc": type(exc).__name__}
                )
            for c in list(st.model):
                if st.model[c] is not None:
                    st.mutations += 1
                    st.cleared_once.add(c)
                st.model[c] = None
        if v is None:
            v = self._recheck(st, op)
        return out, v

    def _nested(self, st, d):
        """Runs inside an __init__, before the instance being built is registered."""
        if d["op"] == "clear":
            singleton.clear_true_singleton(st.classes[d["cls"]])
            if st.model[d["cls"]] is not None:
                st.cleared_once.add(d["cls"])
            st.model[d["cls"]] = None
            return
        if d["op"] == "clear_all":
            singleton.clear_true_singleton()
            for c in list(st.model):
                if st.model[c] is not None:
                    st.cleared_once.add(c)
                st.model[c] = None
            return
        live = st.model[d["cls"]]
        obj = st.classes[d["cls"]]()
        if live is None and d["new"] not in st.token:
            lab = d["new"]
            st.inst[lab] = obj if st.hold else None
            st.token[lab] = getattr(obj, "token", None)
            st.tok2lab[st.token[lab]] = lab
            st.model[d["cls"]] = lab
            st.first_args[lab] = norm_args(d["cls"], (), {})

    def _still_empty(self, st, op, cls):
        """After a failed construction the next one must construct afresh."""
        try:
            obj = st.classes[cls]("probe")
        except Exception as exc:  # pylint: disable=broad-except
            return engine.viol(
                "C18/construction-raises-after-a-failed-construction",
                {"op": op, "exc": type(exc).__name__},
            )
        ok = obj.init_count == 1 and obj.init_args == norm_args(cls, ("probe",), {}) and obj.token not in st.tok2lab
        # keep the model in step with what this observation did
        lab = "probe:" + op["new"]
        st.inst[lab] = obj if st.hold else None
        st.token[lab] = obj.token
        st.tok2lab[obj.token] = lab
        st.model[cls] = lab
        st.first_args[lab] = norm_args(cls, ("probe",), {})
        if not ok:
            return engine.viol(
                "C18/failed-construction-left-an-instance", {"op": op, "init_count": obj.init_count}
            )
        return None

    def _recheck(self, st, op):
        """
        Every class the model says is live must still answer with its
        instance (a construction on a live class has no side effect when the
        property holds, so this observation does not disturb the history).
        """
        for c in list(st.model):
            lab = st.model[c]
            if lab is None:
                continue
            try:
                obj = st.classes[c]()
            except Exception as exc:  # pylint: disable=broad-except
                return engine.viol(
                    "C18/construction-raised", {"class": c, "exc": type(exc).__name__}
                )
            if not st.same(obj, lab) or obj.init_count != 1 or obj.init_args != st.first_args[lab]:
                got = st.lab(obj)
                # keep the world consistent with what was observed
                return engine.viol(
                    "C18/live-instance-lost-or-replaced",
                    {"class": c, "expected": lab, "got": got, "after": op},
                )
        return None

    def state_hash(self, st):
        return engine.h64(engine.jdump(st.model))

    def nontrivial(self, st):
        return st.mutations >= 3


PROPERTY = C18()
