"""
Minimisation of a failing history: delta debugging over the recorded operation
list, then argument simplification.  A candidate is accepted only if the same
violation *kind* recurs.  Every sub-list of a history is a valid history
because the executor skips operations whose labels no longer exist.
"""

import copy

from egsim import engine


def _fails(prop, cfg, ops, kind, counter):
    counter[0] += 1
    res = engine.run_replay(prop, cfg, ops, RUN_SEED[0])
    v = res.violation
    if v is not None and v["kind"] == kind:
        # keep only what was executed up to and including the failing step
        return res
    return None


def ddmin(prop, cfg, ops, kind, counter, max_tests=4000):
    n = 2
    ops = list(ops)
    while len(ops) >= 2 and counter[0] < max_tests:
        chunk = max(1, len(ops) // n)
        reduced = False
        i = 0
        while i < len(ops) and counter[0] < max_tests:
            cand = ops[:i] + ops[i + chunk :]
            if cand and _fails(prop, cfg, cand, kind, counter):
                ops = cand
                n = max(n - 1, 2)
                reduced = True
            else:
                i += chunk
        if not reduced:
            if chunk == 1:
                break
            n = min(len(ops), n * 2)
    return ops


def _simplify_args(prop, cfg, ops, kind, counter, max_tests):
    """Op-local simplifications that keep the list length."""
    ops = [copy.deepcopy(o) for o in ops]
    changed = True
    while changed and counter[0] < max_tests:
        changed = False
        for i, op in enumerate(ops):
            for cand_op in _arg_candidates(op):
                if counter[0] >= max_tests:
                    break
                cand = ops[:i] + [cand_op] + ops[i + 1 :]
                if _fails(prop, cfg, cand, kind, counter):
                    ops = cand
                    changed = True
                    break
    return ops


RUN_SEED = [0]

SIMPLER_CLASS = {
    "SubDirected": "DirectedEdge",
    "SubUnDirected": "UnDirectedEdge",
    "OtherTwoEnded": "DirectedEdge",
    "SubVertex": "Vertex",
    "FalsyVertex": "Vertex",
    "SlottedVertex": "Vertex",
    "HandoverVertex": "Vertex",
    "NestingVertex": "Vertex",
    "UnhashableVertex": "Vertex",
    "PriorityVertex": "Vertex",
    "MigratingVertex": "Vertex",
    "JournalVertex": "Vertex",
    "PortVertex": "Vertex",
    "LatePortVertex": "Vertex",
    "SpanEdge": "DirectedEdge",
    "ArcEdge": "DirectedEdge",
    "SanctuaryUniverse": "Universe",
    "RegionUniverse": "Universe",
    "LabelledEdge": "DirectedEdge",
    "SubUniverse": "Universe",
    "FalsyUniverse": "Universe",
    "RenamedDirected": "DirectedEdge",
    "FalsyClassEdge": "UnDirectedEdge",
    "FrozenEdge": "DirectedEdge",
    "BrittleEdge": "UnDirectedEdge",
}


def _arg_candidates(op):
    out = []
    if op.get("cls") in SIMPLER_CLASS:
        c = dict(op)
        c["cls"] = SIMPLER_CLASS[op["cls"]]
        out.append(c)
    if op.get("op") == "restart":
        if op.get("mode") == "zygote":
            c = dict(op)
            c["mode"] = "exec"
            out.append(c)
        if op.get("mode") in ("zygote", "exec"):
            c = dict(op)
            c["mode"] = "inproc"
            out.append(c)
    for key in ("dir", "unk", "ff", "ffv", "ffr", "ds", "dontdup", "destroy"):
        if key in op and op["op"] not in ("restart",):
            c = dict(op)
            del c[key]
            out.append(c)
    if op.get("op") == "step" and op.get("n", 1) > 1:
        c = dict(op)
        c["n"] = 1
        out.append(c)
    for key in ("links", "universes", "vertices", "ends"):
        if isinstance(op.get(key), list) and len(op[key]) > 1:
            for j in range(len(op[key])):
                c = dict(op)
                c[key] = op[key][:j] + op[key][j + 1 :]
                out.append(c)
    return out


def shrink(prop, cfg, ops, kind, max_tests=4000, run_seed=0):
    """-> (minimised ops, number of replays used)"""
    # the seed of the failing run: it seeds the uid stream and the global
    # random state, which a history may read (randgraph without a reseed)
    RUN_SEED[0] = run_seed
    counter = [0]
    res = _fails(prop, cfg, ops, kind, counter)
    if res is None:
        return list(ops), counter[0], False
    ops = list(res.ops)
    ops = ddmin(prop, cfg, ops, kind, counter, max_tests)
    ops = _simplify_args(prop, cfg, ops, kind, counter, max_tests)
    ops = ddmin(prop, cfg, ops, kind, counter, max_tests)
    res = _fails(prop, cfg, ops, kind, counter)
    if res is not None:
        ops = list(res.ops)
    return ops, counter[0], True
