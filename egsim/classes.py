"""
Classes used inside simulated worlds.  They live in an importable module so
that a fresh interpreter can un-pickle them by reference.

Nothing here constructs an instance at import time.
"""

import egsim  # noqa: F401
from edgegraph.structure.universe import UniverseLaws
from edgegraph.structure import (
    Vertex,
    Universe,
    Link,
    TwoEndedLink,
    DirectedEdge,
    UnDirectedEdge,
)


class SubVertex(Vertex):
    """A plain subclass of Vertex."""


class FalsyVertex(Vertex):
    """A vertex with its own truth value (always false)."""

    def __bool__(self):
        return False


class _ValueEq:
    """Value semantics: equal when of the same class and carrying the same tag."""

    def __eq__(self, other):
        return type(other) is type(self) and getattr(other, "sim_tag", None) == getattr(
            self, "sim_tag", None
        )

    def __hash__(self):
        # integers only: their hashes do not depend on PYTHONHASHSEED
        return hash((7919, getattr(self, "sim_tag", -1)))


class EqVertex(_ValueEq, Vertex):
    """Vertices that compare equal by value: equal-but-distinct objects exist."""


class EqUniverse(_ValueEq, Universe):
    """Universes that compare equal by value."""


class HandoverVertex(Vertex):
    """
    User code inside the vertex<->link protocol: when this vertex is taken off
    a link it hands the link to its heir (an override that calls super() and
    then calls back into the library on the same link).
    """

    def remove_from_link(self, link):
        super().remove_from_link(link)
        heir = vars(self).get("heir")
        if heir is not None and not vars(self).get("_handing"):
            self._handing = True
            try:
                heir.add_to_link(link)
            finally:
                self._handing = False


class NestingVertex(Vertex):
    """
    User code inside pickling: the state of this vertex carries a blob made by
    a nested nrpickler.dumps() (a private side structure stored pre-pickled).
    """

    def __getstate__(self):
        from edgegraph.output import nrpickler

        state = dict(self.__dict__)
        state["_side_blob"] = nrpickler.dumps(["side", state.get("sim_tag")])
        return state

    def __setstate__(self, state):
        import pickle

        blob = state.pop("_side_blob", None)
        self.__dict__.update(state)
        if blob is not None:
            self._side = pickle.loads(blob)


class UnhashableVertex(Vertex):
    """
    Defines __eq__ (as identity) and therefore, as Python has it, no __hash__:
    the kind of class a dataclass with eq=True produces.  Equality is unchanged;
    the object just cannot be put into a set or used as a dict key.
    """

    def __eq__(self, other):
        return self is other

    __hash__ = None


class PriorityVertex(Vertex):
    """Overrides the public `links` view: same links, presented in another order."""

    @property
    def links(self):
        return tuple(sorted(Vertex.links.fget(self), key=lambda l: -l.uid % 1009))


class MigratingVertex(Vertex):
    """A subclass with its own __setstate__ (schema migration), written without super()."""

    def __setstate__(self, state):
        state = dict(state)
        state.setdefault("_schema", 2)  # private: the public attributes stay as pickled
        self.__dict__.update(state)


class SlottedVertex(Vertex):
    """A vertex subclass that keeps some of its attributes in __slots__."""

    __slots__ = ("name", "rank")


class SubUniverse(Universe):
    """A plain subclass of Universe."""


class UnhashableUniverse(Universe):
    """A universe class that defines __eq__ only (identity), hence is unhashable."""

    def __eq__(self, other):
        return self is other

    __hash__ = None


class ClusterUniverse(Universe):
    """A universe that is itself iterable over its members (a legal adjacency value)."""

    def __iter__(self):
        return iter(self.vertices)


class RaisingUniverse(Universe):
    """
    A subclass whose add_vertex override does its own work after super() and
    fails for some vertices (tag 4): an exception out of user code, raised when
    both sides of the membership are already recorded.
    """

    def add_vertex(self, vert):
        super().add_vertex(vert)
        if getattr(vert, "sim_tag", None) == 4:
            from egsim.seams import InjectedFault

            raise InjectedFault("directory index failed")


class FalsyUniverse(Universe):
    """A universe that is falsy while it has no members (a container-like class)."""

    def __len__(self):
        return len(self.vertices)


class RejectingUniverse(Universe):
    """
    A universe with an admission rule: user code that calls back into the
    library in the middle of an operation.  A vertex tagged 5 is added by the
    base class and then removed again.
    """

    def add_vertex(self, vert):
        super().add_vertex(vert)
        if getattr(vert, "sim_tag", None) == 5 and vert in self.vertices:
            self.remove_vertex(vert)


class SanctuaryUniverse(Universe):
    """
    A universe that will not let some members go: its remove_vertex override
    lets the base class remove the vertex and then, for a vertex tagged 3,
    admits it again through the public call (re-entrant user code).  Net
    effect of any removal of such a vertex, from either side: it is a member
    again, last in line, and lists the universe.
    """

    def remove_vertex(self, vert):
        super().remove_vertex(vert)
        if getattr(vert, "sim_tag", None) == 3:
            self.add_vertex(vert)


class RegionUniverse(Universe):
    """
    A universe with a container protocol of its own: `x in region` answers an
    application question (is x tagged with an even number?), not "is x listed
    in .vertices".  The base class has no such protocol, so this says nothing
    about membership bookkeeping.
    """

    def __contains__(self, item):
        return getattr(item, "sim_tag", 1) % 2 == 0

    def __iter__(self):
        return iter(())


class JournalVertex(Vertex):
    """
    A vertex that keeps a journal of the universes it joins.  The journal is
    assigned after super().__init__(), as subclasses usually do, so the
    override must not be reached on a half-built object.
    """

    def __init__(self, *, links=None, uid=None, attributes=None, universes=None):
        super().__init__(links=links, uid=uid, attributes=attributes, universes=universes)
        self._journal = []

    def add_to_universe(self, universe):
        self._journal.append("join")
        super().add_to_universe(universe)


class PortVertex(Vertex):
    """
    A vertex with room for two links: its add_to_link override refuses a third
    by raising -- in the middle of whatever library call wanted to attach it
    (an edge constructor has recorded both ends by then).
    """

    def add_to_link(self, link):
        if len(self.links) >= 2 and not any(lnk is link for lnk in self.links):
            from egsim.seams import InjectedFault

            raise InjectedFault("port full")
        super().add_to_link(link)


class BrittleEdge(UnDirectedEdge):
    """
    An edge that will not take a vertex tagged 3 or more once it is built: its
    add_vertex override raises before anything is recorded on the edge -- in the
    middle of whatever call on the vertex side wanted to attach the two.
    """

    def add_vertex(self, new):
        if len(self.vertices) >= 2 and getattr(new, "sim_tag", 0) >= 3:
            from egsim.seams import InjectedFault

            raise InjectedFault("edge will not take this vertex")
        super().add_vertex(new)


class NestingEdge(DirectedEdge):
    """
    An edge that carries a small random graph of its own as a detail: its
    __init__ calls randgraph -- possibly while an outer randgraph call is in the
    middle of creating its links (re-entrancy through user code).
    """

    def __init__(self, v1=None, v2=None, *, uid=None, attributes=None):
        super().__init__(v1, v2, uid=uid, attributes=attributes)
        from edgegraph.builder import randgraph

        self.detail = randgraph.randgraph(count=3)


class LatePortVertex(Vertex):
    """
    A vertex with room for two links that finds out too late: its add_to_link
    override lets the base class record the link first and raises afterwards
    (a capacity check, a journal write, done after the fact).  By then both
    sides of the association have been recorded.
    """

    def add_to_link(self, link):
        super().add_to_link(link)
        if len(self.links) > 2:
            from egsim.seams import InjectedFault

            raise InjectedFault("port over capacity")


class SpanEdge(DirectedEdge):
    """
    A directed edge whose truth value means "both ends attached": instances
    are falsy while they are being built (and whenever an end is unset).
    """

    def __bool__(self):
        ends = self.vertices
        return len(ends) == 2 and all(e is not None for e in ends)


class ArcEdge(DirectedEdge):
    """A directed edge that describes itself by both of its ends."""

    def __repr__(self):
        return f"<Arc {getattr(self.v1, 'i', '?')} -> {getattr(self.v2, 'i', '?')}>"


class SubDirected(DirectedEdge):
    """A subclass of DirectedEdge."""


class SubUnDirected(UnDirectedEdge):
    """A subclass of UnDirectedEdge."""


class RenamedDirected(DirectedEdge):
    """A directed edge type whose constructor names its ends differently."""

    def __init__(self, src=None, dst=None, *, uid=None, attributes=None):
        super().__init__(src, dst, uid=uid, attributes=attributes)


class FrozenEdge(DirectedEdge):
    """A directed edge type whose ends cannot be re-pointed: read-only v1 / v2."""

    @property
    def v1(self):
        return self.vertices[0]

    @property
    def v2(self):
        return self.vertices[1]


class IndexedEdge(DirectedEdge):
    """
    User code inside the builders: an edge that works out its span from the
    `i` its ends carry, at the moment it is made (randgraph's vertices carry
    i = 0 .. count-1).  Used with randgraph only.
    """

    def __init__(self, v1=None, v2=None, *, uid=None, attributes=None):
        super().__init__(v1, v2, uid=uid, attributes=attributes)
        if v1 is not None and v2 is not None:
            self.span = abs(v1.i - v2.i)


class JoiningEdge(DirectedEdge):
    """User code inside the builders: a new edge joins the universes of its origin."""

    def __init__(self, v1=None, v2=None, *, uid=None, attributes=None):
        super().__init__(v1, v2, uid=uid, attributes=attributes)
        if v1 is not None:
            for uni in v1.universes:
                self.add_to_universe(uni)


class BondEdge(UnDirectedEdge):
    """
    An undirected edge type with order-insensitive VALUE equality: a--b equals
    b--a (and any other bond between the same two vertices).  The library's own
    documentation says such == duplicates are allowed as distinct links.
    """

    def _ends_key(self):
        return frozenset(id(v) for v in self.vertices)

    def __eq__(self, other):
        return type(other) is type(self) and other._ends_key() == self._ends_key()

    def __hash__(self):
        return id(self) >> 4


class LabelledEdge(DirectedEdge):
    """Keeps a class-level default and overrides it per instance through attributes=."""

    label = "?"

    def __init__(self, v1=None, v2=None, *, uid=None, attributes=None):
        attrs = {"label": "made"}
        attrs.update(attributes or {})
        super().__init__(v1, v2, uid=uid, attributes=attrs)


class _FalsyMeta(type):
    """Classes made with this metaclass are falsy (e.g. len(cls) counts something)."""

    def __bool__(cls):
        return False


class FalsyClassEdge(UnDirectedEdge, metaclass=_FalsyMeta):
    """An undirected edge type whose CLASS object is falsy."""


class OtherTwoEnded(TwoEndedLink):
    """A two-ended link type that is neither directed nor undirected."""


class MultiLink(Link):
    """A link with any number of ends."""


class WorldBox:
    """Plain holder used as the pickling root for a whole labelled world."""

    def __init__(self, labels, objs, extra=None):
        self.labels = list(labels)
        self.objs = list(objs)
        self.extra = extra


def _local_vertex_classes():
    """
    Vertex classes that cannot be found by name (they are defined inside a
    function, as classes of a script run as __main__ effectively are for
    another program): dill writes such a class itself into the pickle.
    """
    import abc

    class LocalVertex(Vertex):
        """A by-value class with a plain method."""

        def describe(self):
            return ("local", getattr(self, "sim_tag", None))

    class LocalSuperVertex(Vertex):
        """A by-value class whose methods use zero-argument super() (the class refers to itself through a closure cell)."""

        def __init__(self, *, uid=None, attributes=None, links=None, universes=None):
            super().__init__(uid=uid, attributes=attributes, links=links, universes=universes)

        def describe(self):
            return ("local-super", super().uid == self.uid)

    class LocalAbstractVertex(Vertex, metaclass=abc.ABCMeta):
        """A by-value class with a metaclass other than type."""

        def describe(self):
            return ("local-abc", getattr(self, "sim_tag", None))

    return {c.__name__: c for c in (LocalVertex, LocalSuperVertex, LocalAbstractVertex)}


LOCAL_VERTEX_CLASSES = _local_vertex_classes()

VERTEX_CLASSES = {
    **LOCAL_VERTEX_CLASSES,
    "Vertex": Vertex,
    "SubVertex": SubVertex,
    "FalsyVertex": FalsyVertex,
    "SlottedVertex": SlottedVertex,
    "EqVertex": EqVertex,
    "HandoverVertex": HandoverVertex,
    "NestingVertex": NestingVertex,
    "UnhashableVertex": UnhashableVertex,
    "PriorityVertex": PriorityVertex,
    "MigratingVertex": MigratingVertex,
    "JournalVertex": JournalVertex,
    "PortVertex": PortVertex,
    "LatePortVertex": LatePortVertex,
}
UNIVERSE_CLASSES = {
    "Universe": Universe,
    "SubUniverse": SubUniverse,
    "FalsyUniverse": FalsyUniverse,
    "RejectingUniverse": RejectingUniverse,
    "EqUniverse": EqUniverse,
    "UnhashableUniverse": UnhashableUniverse,
    "ClusterUniverse": ClusterUniverse,
    "RaisingUniverse": RaisingUniverse,
    "SanctuaryUniverse": SanctuaryUniverse,
    "RegionUniverse": RegionUniverse,
}
EDGE_CLASSES = {
    "DirectedEdge": DirectedEdge,
    "UnDirectedEdge": UnDirectedEdge,
    "SubDirected": SubDirected,
    "SubUnDirected": SubUnDirected,
    "OtherTwoEnded": OtherTwoEnded,
    "IndexedEdge": IndexedEdge,
    "RenamedDirected": RenamedDirected,
    "FalsyClassEdge": FalsyClassEdge,
    "FrozenEdge": FrozenEdge,
    "JoiningEdge": JoiningEdge,
    "BondEdge": BondEdge,
    "LabelledEdge": LabelledEdge,
    "BrittleEdge": BrittleEdge,
    "NestingEdge": NestingEdge,
    "SpanEdge": SpanEdge,
    "ArcEdge": ArcEdge,
}
ALL_CLASSES = dict(VERTEX_CLASSES)
ALL_CLASSES.update(UNIVERSE_CLASSES)
ALL_CLASSES.update(EDGE_CLASSES)
ALL_CLASSES["MultiLink"] = MultiLink
ALL_CLASSES["UniverseLaws"] = UniverseLaws


def is_directed(clsname):
    return clsname in ("DirectedEdge", "SubDirected", "RenamedDirected", "SpanEdge", "ArcEdge")


def is_undirected(clsname):
    return clsname in ("UnDirectedEdge", "SubUnDirected", "FalsyClassEdge", "BondEdge")


# --- filter pool (pure, module level, picklable, stable verdicts) -----------
# neighbors() filters take (edge, other_end); find_links filters take (edge).
# Verdicts depend only on the link's class and on an immutable tag the
# simulator puts on vertices at creation (`sim_tag`, an int), never on state
# that changes during a run.


def _tag(v):
    return getattr(v, "sim_tag", 0) if v is not None else 0


def ff_accept(edge, other):
    return True


def ff_reject(edge, other):
    return False


def ff_even(edge, other):
    return _tag(other) % 2 == 0


def ff_directed_only(edge, other):
    return isinstance(edge, DirectedEdge)


NB_FILTERS = {
    None: None,
    "accept": ff_accept,
    "reject": ff_reject,
    "even": ff_even,
    "dironly": ff_directed_only,
}


def fl_accept(edge):
    return True


def fl_reject(edge):
    return False


def fl_directed_only(edge):
    return isinstance(edge, DirectedEdge)


FL_FILTERS = {
    None: None,
    "accept": fl_accept,
    "reject": fl_reject,
    "dironly": fl_directed_only,
}


def fr_accept(v):
    return True


def fr_reject(v):
    return False


def fr_even(v):
    return _tag(v) % 2 == 0


RESULT_FILTERS = {
    None: None,
    "accept": fr_accept,
    "reject": fr_reject,
    "even": fr_even,
}


def nb_filter(name):
    """
    A neighbors()/traversal filter by name.  A leading "~" asks for a fresh,
    short-lived callable (a new closure per call, as a caller writing an
    inline lambda would pass), with the verdicts of the named filter.
    """
    if name is None:
        return None
    if name == "~global":
        return lambda edge, other: isinstance(edge, (DirectedEdge, UnDirectedEdge)) or other is None
    if name.startswith("~"):
        base = NB_FILTERS[name[1:]]
        return lambda edge, other: base(edge, other)
    return NB_FILTERS[name]
