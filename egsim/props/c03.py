"""
C03 -- every mutation has exactly its documented effect and no other
(DESIGN 4/C03): refinement of the reference model over histories.

Workload: edge constructors (incl. ill-typed arguments as failing calls), end
assignment, link_* with and without dontdup, unlink with both destroy values,
plus the universe calls so that universe state is part of the frame; list-level
link calls only on the multi-ended class, on a disjoint sub-pool and without
repeated ends (the property defines no effect for the other cases; C01 covers
those states with its invariant).
Oracle after every step: the whole world walked through public accessors
equals the model, and the return value is the one the model allows.
"""

from egsim import gen
from egsim.props import common

KINDS = (
    ["mk_edge", "set_end", "link", "unlink", "mk_vertex"]
    + gen.UNIVERSE_MUTATORS
)


class C03(common.ModelProperty):
    id = "C03"
    title = "every mutation has exactly its documented effect (frame property)"
    max_steps = 80
    budget = {
        "quick": {"runs": 100000, "wall_cap_s": 600},
        "thorough": {"runs": 4000000, "wall_cap_s": 5400},
    }
    rule = (
        "one evaluation = one seeded history over the structure and explicit-builder API "
        "(aliasing-biased arguments) compared with the reference model after every step: "
        "every vertex's ordered links and universes, every link's ordered ends, every "
        "universe's ordered members, every return value; distinct = distinct event-log "
        "digest; non-trivial = the state changed at least 3 times"
    )
    assumptions = [
        "single-threaded use; neighbor caching off",
        "observation through public accessors only",
        "narrow relaxations (DESIGN 6.5): position of an edge in the assigned vertex's "
        "links when that vertex already listed it (kept or moved to the end); which "
        "joining link dontdup returns",
        "list-level link calls are applied only to a multi-ended Link subclass without "
        "repeated ends",
        "histories are sampled, not enumerated",
    ]
    expected_probes = [
        "set_end-on-self-loop",
        "set_end-new-equals-old",
        "set_end-new-equals-other",
        "set_end-to-None",
        "set_end-on-edge-without-two-ends",
        "self-loop-created",
        "ill-typed-constructor-argument",
        "unlink-self-pair",
        "dontdup-found-existing",
        "unlink-removed-several",
        "unlink-removed-mixed-types",
        "two-ended-link-given-third-end",
        "vertex-side-remove-of-multiply-listed-vertex",
    ]

    def make_config(self, rng):
        cfg = common.std_struct_config(
            rng, kinds=KINDS, always=("mk_edge",), multi_p=0.25
        )
        cfg["multi_no_repeat"] = True
        if rng.random() < 0.12:
            # vertices that define __eq__ (as identity) and so cannot be hashed
            cfg["vertex_classes"] = ["Vertex", "UnhashableVertex"]
        if rng.random() < 0.25:
            # list-level calls on two-ended links too: edges with a third end,
            # with one end, with a vertex named twice (reachable through the
            # public API; the model gives them the documented list semantics)
            cfg["degenerate"] = True
            for k in ("add_to_link", "add_vertex", "remove_from_link", "unlink_from", "mk_vertex_links"):
                cfg["weights"][k] = rng.choice([1, 1, 2])
        cfg["p_bad"] = rng.choice([0.0, 0.05, 0.1])
        cfg["nested_universes"] = rng.random() < 0.5
        cfg["max_universes"] = cfg["nu"] + 1
        return cfg

    def may_be_rejected(self, st, op):
        # giving a two-ended link a further end (from either side, or through
        # Vertex(links=)): today accepted; a library that refused it would not
        # break this property, as long as the refusal changes nothing
        objs = st.model.objs
        if op["op"] in ("add_vertex", "add_to_link"):
            return objs.get(op["e"], {}).get("k") == "e"
        if op["op"] == "mk_vertex" and op.get("links"):
            return any(objs.get(l, {}).get("k") == "e" for l in op["links"])
        return False

    def execute(self, st, op):
        out, v = super().execute(st, op)
        if out is not None and v is None:
            s = st.stats
            if op["op"] == "link" and op.get("dontdup") and out.get("ret") != op["new"]:
                s["probe:dontdup-found-existing"] += 1
            if op["op"] == "unlink" and op.get("destroy") is False:
                got = out.get("ret", {}).get("set", []) if isinstance(out.get("ret"), dict) else []
                if len(got) >= 2:
                    s["probe:unlink-removed-several"] += 1
                    if len({st.snap[l]["cls"] for l in got if l in st.snap}) >= 2:
                        s["probe:unlink-removed-mixed-types"] += 1
        return out, v


PROPERTY = C03()
