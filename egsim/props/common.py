"""Shared pieces of the history-driven property modules."""

import collections

from egsim import engine, gen, ops as O, seams
from egsim.world import World


class HistState:
    """State of a run that drives one world with a history of operations."""

    def __init__(self, cfg):
        self.cfg = cfg
        self.ex = O.Exec(World())
        self.namer = gen.Namer()
        self.setup = collections.deque()
        self.stats = collections.Counter()
        self.snap = {}
        self.view = gen.View({})
        self.seen_states = 0
        self.mutations = 0

    def refresh(self):
        self.snap = self.ex.w.snapshot()
        self.view = gen.View(self.snap)
        return self.snap


def inproc_restart(st, op):
    """
    The whole labelled world through edgegraph's own pickler and back, in this
    process; the history then continues on the copy.  -> "ok" | "failed" |
    "changed" (the round trip itself altered the public structure: C10's
    matter, the run ends quietly).  What this is for: private state that is
    right in the process that built it and wrong in the copy shows only when
    the history goes on.
    """
    import pickle

    from edgegraph.output import nrpickler
    from egsim import classes as C

    w = st.ex.w
    before = w.snapshot()
    box = C.WorldBox(list(w.objs), list(w.objs.values()))
    try:
        data = nrpickler.dumps(box, protocol=op.get("proto", 4))
        if op.get("loader") == "dill":
            import dill

            box2 = dill.loads(data)
        else:
            box2 = pickle.loads(data)
    except Exception:  # pylint: disable=broad-except
        st.stats["note:restart-round-trip-failed"] += 1
        return "failed"
    w2 = World()
    for lab, obj in zip(box2.labels, box2.objs):
        w2.add(lab, obj, w.kind[lab])
    w2._disc = dict(w._disc)  # pylint: disable=protected-access
    st.ex.w = w2
    # containers the simulated client was holding referred to the old objects;
    # they do not survive the restart either
    st.ex.shared = {}
    st.ex.held = {}
    st.stats["fault:restart"] += 1
    st.stats["restart:inproc"] += 1
    if w2.snapshot() != before:
        st.stats["note:restart-changed-the-structure"] += 1
        return "changed"
    return "ok"


def flag_op(rng, cfg, st):
    """A flip of the process-wide caching flag, or None."""
    p = cfg.get("p_flag")
    if p and rng.random() < p:
        st.stats["probe:caching-flag-flipped-between-structural-calls"] += 1
        st.stats["fault:flag-flip"] += 1
        return {"op": "flag", "on": rng.random() < 0.6}
    return None


def restart_op(rng):
    return {"op": "roundtrip", "proto": rng.randint(0, 5), "loader": rng.choice(["pickle", "dill"])}


def probe_link_op(st, op):
    """Reach probes for link-affecting operations, from the pre-state view."""
    s = st.stats
    snap = st.snap
    k = op["op"]
    if k == "set_end" and op["e"] in snap:
        ends = snap[op["e"]].get("ends", [])
        if len(ends) == 2:
            old = ends[op["which"] - 1]
            other = ends[2 - op["which"]]
            if ends[0] is not None and ends[0] == ends[1]:
                s["probe:set_end-on-self-loop"] += 1
            if op["x"] == old:
                s["probe:set_end-new-equals-old"] += 1
            if op["x"] == other:
                s["probe:set_end-new-equals-other"] += 1
            if op["x"] is None:
                s["probe:set_end-to-None"] += 1
            if None in ends:
                s["probe:set_end-on-half-assigned"] += 1
        else:
            s["probe:set_end-on-edge-without-two-ends"] += 1
    elif k == "remove_from_link" and op["e"] in snap:
        ends = snap[op["e"]].get("ends", [])
        n = ends.count(op["v"])
        if n >= 2:
            s["probe:vertex-side-remove-of-multiply-listed-vertex"] += 1
        if n == 0:
            s["probe:remove_from_link-non-member"] += 1
    elif k == "unlink_from" and op["e"] in snap:
        ends = snap[op["e"]].get("ends", [])
        if ends.count(op["v"]) >= 2:
            s["probe:link-side-remove-of-multiply-listed-vertex"] += 1
        if op["v"] is None:
            s["probe:unlink_from-None"] += 1
    elif k == "add_vertex" and op["e"] in snap:
        ends = snap[op["e"]].get("ends", [])
        if op["v"] in ends and op["v"] is not None:
            s["probe:add_vertex-already-an-end"] += 1
        if snap[op["e"]]["k"] == "e":
            s["probe:two-ended-link-given-third-end"] += 1
    elif k == "mk_edge":
        if op["a"] is not None and op["a"] == op["b"]:
            s["probe:self-loop-created"] += 1
        if op["a"] is None or op["b"] is None:
            s["probe:half-assigned-edge-created"] += 1
        if isinstance(op["a"], dict) or isinstance(op["b"], dict):
            s["probe:ill-typed-constructor-argument"] += 1
    elif k == "unlink":
        if op["a"] == op["b"]:
            s["probe:unlink-self-pair"] += 1


def flag_for(policy, flip_state):
    return flip_state


def deep_tier():
    """True inside a thorough-tier run (set by the runner for its workers)."""
    import os

    return os.environ.get("EGSIM_TIER") == "thorough"


def std_struct_config(rng, *, kinds, always=(), multi_p=0.3, lo=3, hi=60, mean=14):
    """The part of the swarm configuration shared by structure-driven runs."""
    cfg = {}
    cfg["steps"] = gen.geometric_steps(rng, lo, hi, mean)
    cfg["nv"] = rng.randint(2, 7)
    cfg["nu"] = rng.randint(0, 3)
    cfg["max_links"] = rng.choice([3, 6, 10])
    cfg["max_vertices"] = cfg["nv"] + rng.choice([0, 1, 2])
    if deep_tier() and rng.random() < 0.25:
        # thorough tier: a share of runs with deeper bounds
        cfg["deep_bounds"] = True
        cfg["steps"] = gen.geometric_steps(rng, hi // 2, hi * 3, mean * 4)
        cfg["nv"] = rng.randint(5, 12)
        cfg["max_links"] = rng.choice([10, 16, 24])
        cfg["max_vertices"] = cfg["nv"] + rng.choice([0, 2, 4])
    cfg["p_alias"] = rng.choice([0.1, 0.3, 0.5, 0.8])
    cfg["p_none"] = rng.choice([0.0, 0.0, 0.05, 0.15])
    k = rng.randint(1, len(gen.EDGE_CLASSES))
    cfg["edge_classes"] = sorted(rng.sample(gen.EDGE_CLASSES, k))
    cfg["vertex_classes"] = rng.choice(
        [["Vertex"], ["Vertex", "SubVertex"], ["Vertex", "SubVertex", "FalsyVertex"], ["Vertex", "FalsyVertex"]]
    )
    cfg["universe_classes"] = rng.choice(
        [["Universe"], ["Universe", "SubUniverse"], ["Universe", "FalsyUniverse"], ["FalsyUniverse", "SubUniverse"]]
    )
    cfg["restarts"] = rng.random() < 0.3  # pickle round trips (in process) in mid-history
    cfg["p_item_syntax"] = rng.choice([0.0, 0.0, 0.3])  # e["v2"] = x instead of e.v2 = x
    cfg["p_w_error"] = rng.choice([0.0, 0.0, 0.15])  # calls made with warnings turned into errors
    # the application flips Vertex.NEIGHBOR_CACHING between two calls (the
    # structural properties do not mention the flag: they hold whatever it is)
    cfg["p_flag"] = rng.choice([0.0, 0.0, 0.05, 0.15])
    cfg["multi"] = rng.random() < multi_p
    cfg["nmv"] = rng.randint(1, 3)
    kinds = list(kinds)
    if cfg["multi"]:
        kinds = kinds + gen.MULTI_MUTATORS
    cfg["weights"] = gen.swarm_weights(rng, kinds, always=always)
    return cfg


# ------------------------------------------------------------------ model-based runs
from egsim import model as M  # noqa: E402


class ModelState(HistState):
    def __init__(self, cfg):
        super().__init__(cfg)
        self.model = M.Model()
        self.gen = gen.StructGen(cfg)
        self.pending_setup = None


class ModelProperty(engine.Property):
    """
    Refinement of the reference model: after every step the world walked
    through public accessors must equal the model, and the normalised outcome
    must be the one the model allows.
    """

    kinds = ()
    always = ()

    def start(self, cfg):
        return ModelState(cfg)

    def next_op(self, rng, cfg, st):
        if st.pending_setup is None:
            st.pending_setup = gen.setup_ops(rng, cfg, st.namer)
        if st.pending_setup:
            return st.pending_setup.pop(0)
        if getattr(st, "ended", False):
            return None
        if cfg.get("restarts") and rng.random() < 0.04:
            return restart_op(rng)
        fl = flag_op(rng, cfg, st)
        if fl is not None:
            return fl
        for _ in range(20):
            kind = gen.weighted_choice(rng, cfg["weights"])
            op = st.gen.draw(rng, st.view, st.namer, kind)
            if op is not None:
                return op
        return None

    def invariants(self, snap):
        return None

    def canon(self, state):
        """What of the state this property compares (default: all of it, as is)."""
        return state

    refusal_name = "list-level-call-on-two-ended-link-refused"

    def may_be_rejected(self, st, op):
        """Calls the property defines no effect for: accepted or refused, never half-done."""
        return False

    def outcome_kind(self, op, expected, why):
        return f"{self.id}/outcome:{op['op']}"

    def state_kind(self, op, expected, diff):
        if isinstance(expected, M.Raises):
            return f"{self.id}/failed-call-changed-state:{op['op']}"
        return f"{self.id}/state-differs-from-model:{op['op']}"

    def execute(self, st, op):
        if getattr(st, "ended", False):
            return None, None
        if op["op"] == "roundtrip":
            r = inproc_restart(st, op)
            if r == "changed":
                st.ended = True
            st.refresh()
            return {"restart": r}, None
        # the model is advanced only if the real side executes the operation
        for key in ("e", "v", "u", "a", "b", "x", "L"):
            ref = op.get(key)
            if isinstance(ref, str) and ref not in st.model.objs:
                return None, None
        for key in ("links", "universes", "vertices", "ends", "verts"):
            for ref in op.get(key) or []:
                if isinstance(ref, str) and ref not in st.model.objs:
                    return None, None
        for key, vals in op.get("adj") or []:
            for ref in [key] + list(vals):
                if ref not in st.model.objs:
                    return None, None
        if "new" in op and op["new"] in st.model.objs:
            return None, None
        probe_link_op(st, op)
        before = st.snap
        saved = st.model.copy_state() if self.may_be_rejected(st, op) else None
        expected = st.model.apply(op)
        out = st.ex.apply(op)
        if out is None:
            raise engine.egsim.HarnessError(f"model ran {op} but the world skipped it")
        if saved is not None and "exc" in out and not isinstance(expected, M.Raises):
            # a call the property gives no effect for (a further end on a
            # two-ended link) may also be refused -- but then atomically
            st.model.objs = saved
            st.model.alt = None
            expected = M.Raises()
            st.stats["relaxation:" + self.refusal_name] += 1
        st.stats["op:" + op["op"]] += 1
        if "exc" in out:
            st.stats["fault:failing-call"] += 1
            st.stats["failing-call:" + op["op"] + ":" + out["exc"]] += 1
        snap = st.refresh()
        if snap != before:
            st.mutations += 1
        v = self.invariants(snap)
        if v is not None:
            return out, v
        why = M.compare_outcome(expected, out)
        if why is not None:
            return out, engine.viol(
                self.outcome_kind(op, expected, why), {"op": op, "why": why}
            )
        if self.canon(snap) != self.canon(st.model.objs):
            if st.model.alt is not None and snap == st.model.alt:
                st.model.objs = st.model.alt
                st.stats["relaxation:edge-moved-to-end-of-assigned-vertex"] += 1
            else:
                diff = M.first_difference(snap, st.model.objs)
                return out, engine.viol(
                    self.state_kind(op, expected, diff), {"op": op, "diff": diff}
                )
        st.model.alt = None
        return out, None

    def state_hash(self, st):
        return engine.h64(engine.jdump(st.snap))

    def nontrivial(self, st):
        return st.mutations >= 3
