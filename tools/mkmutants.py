#!/usr/bin/env python3
"""
Builds /verif/mutants/<name>/{patch.diff,meta.json} from the table below and
keeps only candidates under which the repository's own test suite stays green
(checked in a scratch copy under /dev/shm, removed afterwards).
"""
import json
import os
import shutil
import subprocess
import sys
import tempfile

REPO = "/repo"
OUT = "/verif/mutants"

M = []


def mut(name, prop, file, old, new, summary, also=()):
    M.append(dict(name=name, prop=prop, file=file, old=old, new=new, summary=summary, also=list(also)))


# ---- C01 / C03 ---------------------------------------------------------------
mut("c01-replace-end-skips-attach-when-old-none", "C01", "edgegraph/structure/twoendedlink.py",
    "        if (new is not None) and (self not in new.links):\n            new.add_to_link(self)\n",
    "        if (new is not None) and (old is not None) and (self not in new.links):\n            new.add_to_link(self)\n",
    "end assignment on a half-assigned edge (old end None) forgets to attach the new vertex", also=["C03", "C05", "C10"])
mut("c01-add-to-link-no-dup-guard-on-third-end", "C01", "edgegraph/structure/link.py",
    "        if (new is not None) and (self not in new.links):\n            new.add_to_link(self)\n",
    "        if (new is not None) and (len(self._vertices) > 2 or self not in new.links):\n            new._links.append(self)\n",
    "Link.add_vertex appends the link to the vertex again when it is a third-or-later end", also=["C03", "C05", "C10", "C12", "C13"])
# ---- C02 ---------------------------------------------------------------------
mut("c02-remove-vertex-forgets-self-membership", "C02", "edgegraph/structure/universe.py",
    "        self._vertices.remove(vert)\n        if self in vert.universes:\n            vert.remove_from_universe(self)\n",
    "        self._vertices.remove(vert)\n        if vert is not self and self in vert.universes:\n            vert.remove_from_universe(self)\n",
    "Universe.remove_vertex skips the vertex side when a universe is removed from itself", also=["C03", "C10"])
mut("c02-base-dedup-dropped", "C02", "edgegraph/structure/base.py",
    "        self._universes = [*dict.fromkeys(self._universes)]\n",
    "        pass\n",
    "BaseObject no longer de-duplicates universes= (duplicates in Vertex.universes)", also=["C03", "C10", "C12"])
# ---- C03 ---------------------------------------------------------------------
mut("c03-dontdup-checks-forward-only", "C03", "edgegraph/builder/explicit.py",
    "            if lnk.other(v1) is v2:\n                return lnk\n",
    "            if lnk.other(v1) is v2 and lnk.v1 is v1:\n                return lnk\n",
    "dontdup ignores a joining link that points the other way", also=["C11"])
mut("c03-unlink-skips-self-loops", "C03", "edgegraph/builder/explicit.py",
    "    for link in links:\n        link.unlink_from(v1)\n        link.unlink_from(v2)\n",
    "    for link in links:\n        link.unlink_from(v1)\n        if v2 is not v1:\n            link.unlink_from(v2)\n",
    "harmless-looking shortcut in unlink (kept: must NOT fire -- equivalent behaviour)", also=[])
# ---- C05 ---------------------------------------------------------------------
mut("c05-replace-end-no-invalidate-all", "C05", "edgegraph/structure/twoendedlink.py",
    "        # the vertex at the other end has a different neighbor now, too\n        self._invalidate_neighbor_caches()\n",
    "",
    "end assignment no longer invalidates the opposite end's memo", also=["C12", "C10"])
mut("c05-memo-lookup-key-differs-from-insert-key", "C05", "edgegraph/traversal/helpers.py",
    "    cached = vert._qa_neighbors_get(\n        direction_sensitive, unknown_handling, filterfunc\n    )",
    "    cached = vert._qa_neighbors_get(\n        direction_sensitive, unknown_handling, filterfunc is not None\n    )",
    "lookup key never equals any insert key: the cache is merely disabled, answers stay right (must NOT fire)", also=[])
mut("c05-memo-key-without-filter-identity", "C05", "edgegraph/traversal/helpers.py",
    "    vert._qa_neighbors_insert(\n        list(nbs), direction_sensitive, unknown_handling, filterfunc\n    )",
    "    vert._qa_neighbors_insert(\n        list(nbs), direction_sensitive, unknown_handling, filterfunc\n    )\n    if filterfunc is not None and direction_sensitive == DIR_SENS_ANY:\n        # any filter gives the same answer when every link is followed anyway\n        vert._qa_neighbors_insert(\n            list(nbs), direction_sensitive, unknown_handling, None\n        )",
    "under ANY a filtered answer is also stored as the unfiltered one", also=["C12", "C13"])
mut("c05-memo-insert-key-drops-unknown-handling", "C05", "edgegraph/traversal/helpers.py",
    "    cached = vert._qa_neighbors_get(\n        direction_sensitive, unknown_handling, filterfunc\n    )",
    "    unknown_key = unknown_handling if direction_sensitive != DIR_SENS_ANY else LNK_UNKNOWN_NEIGHBOR\n    cached = vert._qa_neighbors_get(\n        direction_sensitive, unknown_key, filterfunc\n    )",
    "lookup normalises the key for ANY but insert does not (equivalent: must NOT fire)", also=[])
mut("c05-invalidate-only-when-flag-on-in-link", "C05", "edgegraph/structure/link.py",
    "        for vert in self._vertices:\n            if vert is not None:\n",
    "        for vert in self._vertices:\n            if vert is not None and vert.NEIGHBOR_CACHING:\n",
    "link-level invalidation skipped while the flag is off", also=["C12", "C10"])
mut("c05-unlink-from-no-invalidate-remaining", "C05", "edgegraph/structure/link.py",
    "            if kill is not None:\n                kill.remove_from_link(self)\n\n            self._invalidate_neighbor_caches()\n",
    "            if kill is not None:\n                kill.remove_from_link(self)\n",
    "unlink_from does not tell the remaining ends", also=["C12", "C10"])
# ---- C10 ---------------------------------------------------------------------
mut("c10-stats-record-not-created-on-demand", "C10", "edgegraph/structure/vertex.py",
    "        return self._CACHE_STATS.setdefault(self.uid, [0, 0, 0, 0])\n",
    "        return self._CACHE_STATS[self.uid]\n",
    "cache statistics record again only made by __init__ (KeyError after unpickling in a fresh process)", also=["C05"])
mut("c10-getstate-drops-memo-and-universes-order", "C10", "edgegraph/structure/vertex.py",
    "    def add_to_universe(self, universe: Universe) -> None:\n        \"\"\"\n        Adds this object to a new universe.  If it is already there, no action\n        is taken.\n\n        In addition",
    "    def __getstate__(self):\n        state = dict(self.__dict__)\n        state[\"_universes\"] = sorted(state[\"_universes\"], key=lambda u: u.uid)\n        return state\n\n    def add_to_universe(self, universe: Universe) -> None:\n        \"\"\"\n        Adds this object to a new universe.  If it is already there, no action\n        is taken.\n\n        In addition",
    "pickled state stores a vertex's universes sorted by uid (order lost in the copy)", also=[])
# ---- C11 ---------------------------------------------------------------------
mut("c11-adjdict-adds-values-first", "C11", "edgegraph/builder/adjlist.py",
    "        for v2 in v2s:\n            explicit.link_from_to(v1, linktype, v2)\n            v2.add_to_universe(uni)\n",
    "        for v2 in v2s:\n            v2.add_to_universe(uni)\n        for v2 in v2s:\n            explicit.link_from_to(v1, linktype, v2)\n",
    "values walked twice: a one-shot iterable value is exhausted before linking (first classified as equivalent; the check was right)", also=[])
mut("c11-matrix-skips-diagonal", "C11", "edgegraph/builder/adjmatrix.py",
    "            if cell:\n",
    "            if cell and (i != j or cell is True or cell == 1):\n",
    "truthy non-1 diagonal cells (e.g. 2.5, 'x') are ignored", also=[])
mut("c11-matrix-validates-rows-lazily", "C11", "edgegraph/builder/adjmatrix.py",
    "    uni = Universe()\n    for vert in vertices:\n        vert.add_to_universe(uni)\n",
    "    uni = Universe()\n    for vert in vertices:\n        vert.add_to_universe(uni)\n    if any(len(row) > matrixlen for row in matrix):\n        raise ValueError(\"row too long\")\n",
    "extra (redundant) validation after vertices were added -- unreachable, must NOT fire", also=[])
# ---- C12 ---------------------------------------------------------------------
mut("c12-universe-vertices-returns-internal-when-empty", "C12", "edgegraph/structure/universe.py",
    "        return list(self._vertices)\n\n    def add_vertex",
    "        if not self._vertices:\n            return self._vertices\n        return list(self._vertices)\n\n    def add_vertex",
    "Universe.vertices hands out the internal list while the universe is empty", also=[])
mut("c12-neighbors-hit-returns-entry", "C12", "edgegraph/traversal/helpers.py",
    "        return list(cached)\n",
    "        return cached\n",
    "cache hit returns the entry itself again", also=["C05"])
# ---- C13 ---------------------------------------------------------------------
mut("c13-neighbors-registers-list-before-loop", "C13", "edgegraph/traversal/helpers.py",
    "    nbs = []\n    for link in vert.links:\n",
    "    nbs = []\n    # pylint: disable-next=protected-access\n    vert._qa_neighbors_insert(\n        nbs, direction_sensitive, unknown_handling, filterfunc\n    )\n    for link in vert.links:\n",
    "memo entry registered before the loop has finished (a raising filterfunc leaves a partial entry)", also=["C05", "C12"])
mut("c13-basic-render-caches-label-on-vertex", "C13", "edgegraph/output/plaintext.py",
    "        if rfunc:\n            start = rfunc(vert)\n        else:\n            start = repr(vert)\n",
    "        if rfunc:\n            start = rfunc(vert)\n            vert._rendered_as = start\n        else:\n            start = repr(vert)\n",
    "basic_render leaves a (private) attribute on every vertex it renders", also=["C10"])
# ---- C17 / C18 / C19 / C20 -----------------------------------------------------
mut("c17-kwargs-key-without-sort", "C17", "edgegraph/structure/singleton.py",
    "            jwargs = json.dumps(kwargs, sort_keys=True)\n",
    "            jwargs = json.dumps(kwargs)\n",
    "keyword order matters for the default key", also=[])
mut("c17-clear-keeps-subclass-isolation-broken", "C17", "edgegraph/structure/singleton.py",
    "        if key[0] is not cls\n",
    "        if not issubclass(key[0], cls)\n",
    "clear_semi_singleton(cls) also clears subclasses of cls", also=[])
mut("c18-clear-also-drops-subclasses", "C18", "edgegraph/structure/singleton.py",
    "        if cls in TrueSingleton._TrueSingleton__singleton_instances:\n            del TrueSingleton._TrueSingleton__singleton_instances[cls]\n",
    "        for k in [k for k in TrueSingleton._TrueSingleton__singleton_instances if issubclass(k, cls)]:\n            del TrueSingleton._TrueSingleton__singleton_instances[k]\n",
    "targeted clear also clears subclasses", also=[])
mut("c19-laws-setter-keeps-old-when-new-in-use", "C19", "edgegraph/structure/universe.py",
    "        if old is not None and old.laws is self:\n            old.laws = None\n",
    "        if old is not None and old.laws is self and new is None:\n            old.laws = None\n",
    "applies_to moved to another universe does not release the previous one", also=["C10", "C12"])
mut("c20-clamp-skipped-for-single-vertex", "C20", "edgegraph/builder/randgraph.py",
    "        k = min(k, count)\n",
    "        k = min(k, count - 1) if count > 1 else k\n",
    "clamp skipped when count == 1: randgraph(count=1) raises again with the default connectivity", also=[])
mut("c20-clamp-to-count-minus-one", "C20", "edgegraph/builder/randgraph.py",
    "        k = min(k, count)\n",
    "        k = min(k, max(1, count - 1))\n",
    "sample size clamped to count-1 (at least 1): every clause still holds (must NOT fire)", also=[])
mut("c20-count-minus-one-when-connectivity-zero", "C20", "edgegraph/builder/randgraph.py",
    "        adj[verts[i]] = random.sample(verts, k)\n",
    "        if k or ensurelink:\n            adj[verts[i]] = random.sample(verts, k)\n",
    "vertices without out-links (ensurelink off, k == 0) are dropped from the universe", also=[])

# ---- property-preserving refactors: nothing may fire ---------------------------------
mut("ref-remove-vertex-raises-keyerror", "C02", "edgegraph/structure/universe.py",
    "        self._vertices.remove(vert)\n        if self in vert.universes:",
    "        if vert not in self._vertices:\n            raise KeyError(vert)\n        self._vertices.remove(vert)\n        if self in vert.universes:",
    "refactor: a different exception class for a non-member removal (must NOT fire)", also=[])
mut("ref-unlink-returns-frozenset", "C03", "edgegraph/builder/explicit.py",
    "    if not destroy:\n        return out\n",
    "    if not destroy:\n        return frozenset(out)\n",
    "refactor: unlink returns a frozenset (must NOT fire)", also=[])
mut("ref-links-accessor-returns-list-copy", "C12", "edgegraph/structure/vertex.py",
    "        return tuple(self._links)\n",
    "        return list(self._links)\n",
    "refactor: Vertex.links returns a list copy instead of a tuple (detached either way; must NOT fire)", also=[])
mut("ref-neighbors-hit-returns-copy-via-slice", "C12", "edgegraph/traversal/helpers.py",
    "        return list(cached)\n",
    "        return cached[:]\n",
    "refactor: copy by slicing (must NOT fire)", also=[])
mut("ref-invalidate-clears-in-place", "C05", "edgegraph/structure/vertex.py",
    "        self.__qa_nb_cache = {}\n\n        if not self.NEIGHBOR_CACHING:\n            return\n",
    "        try:\n            self.__qa_nb_cache.clear()\n        except AttributeError:\n            self.__qa_nb_cache = {}\n\n        if not self.NEIGHBOR_CACHING:\n            return\n",
    "refactor: memo emptied in place (must NOT fire)", also=[])
mut("ref-pyvis-temp-attr-renamed", "C13", "edgegraph/output/pyvis.py",
    "__make_pyvis_net_i",
    "__make_pyvis_net_idx",
    "refactor: temporary attribute renamed everywhere (must NOT fire)", also=[])
mut("ref-laws-setter-early-exit-order", "C19", "edgegraph/structure/universe.py",
    "        old = self._laws\n        self._laws = new\n",
    "        old, self._laws = self._laws, new\n",
    "refactor: tuple assignment (must NOT fire)", also=[])
mut("ref-singleton-call-uses-try", "C18", "edgegraph/structure/singleton.py",
    "        if cls not in cls._TrueSingleton__singleton_instances:\n            cls._TrueSingleton__singleton_instances[cls] = super(\n                TrueSingleton, cls\n            ).__call__(*args, **kwargs)\n        return cls._TrueSingleton__singleton_instances[cls]\n",
    "        try:\n            return cls._TrueSingleton__singleton_instances[cls]\n        except KeyError:\n            inst = super(TrueSingleton, cls).__call__(*args, **kwargs)\n            cls._TrueSingleton__singleton_instances[cls] = inst\n            return inst\n",
    "refactor: EAFP lookup (must NOT fire)", also=[])

mut("ref-universe-vertices-returns-tuple", "C12", "edgegraph/structure/universe.py",
    "        return list(self._vertices)\n\n    def add_vertex",
    "        return tuple(self._vertices)\n\n    def add_vertex",
    "refactor: Universe.vertices returns a tuple (immutable instead of detached; must NOT fire)", also=[])
mut("ref-universes-accessor-returns-tuple", "C12", "edgegraph/structure/base.py",
    "        return list(self._universes)\n",
    "        return tuple(self._universes)\n",
    "refactor: BaseObject.universes returns a tuple (must NOT fire)", also=[])
mut("ref-nrpickler-deque", "C10", "edgegraph/output/nrpickler.py",
    "            lws = self.lazywrites\n            self.lazywrites = []\n            while lws:\n                lw = lws.pop(0)\n",
    "            lws = __import__(\"collections\").deque(self.lazywrites)\n            self.lazywrites = []\n            while lws:\n                lw = lws.popleft()\n",
    "refactor: the pending-writes queue drained through a deque (O(1) pops; must NOT fire)", also=[])
mut("ref-bft-uses-list-queue", "C05", "edgegraph/traversal/breadthfirst.py",
    "    visited = set()\n    queue = collections.deque([start])\n    visited.add(start)\n\n    if (ff_result and ff_result(start)) or (not ff_result):",
    "    visited = {start}\n    queue = collections.deque()\n    queue.append(start)\n\n    if (ff_result and ff_result(start)) or (not ff_result):",
    "refactor: ibft initialises its queue differently (must NOT fire)", also=[])
mut("ref-semisingleton-eafp", "C17", "edgegraph/structure/singleton.py",
    "            if key not in cls._SemiSingleton__semisingleton_instance_map:\n                cls._SemiSingleton__semisingleton_instance_map[key] = super(\n                    _SemiSingleton, cls\n                ).__call__(*args, **kwargs)\n            return cls._SemiSingleton__semisingleton_instance_map[key]\n",
    "            try:\n                return cls._SemiSingleton__semisingleton_instance_map[key]\n            except KeyError:\n                inst = super(_SemiSingleton, cls).__call__(*args, **kwargs)\n                cls._SemiSingleton__semisingleton_instance_map[key] = inst\n                return inst\n",
    "refactor: EAFP lookup in the semi-singleton metaclass (must NOT fire)", also=[])
mut("ref-matrix-validates-with-any", "C11", "edgegraph/builder/adjmatrix.py",
    "    for i, row in enumerate(matrix):\n        if len(row) != matrixlen:\n            raise ValueError(",
    "    for i, row in enumerate(list(matrix)):\n        if not len(row) == matrixlen:\n            raise ValueError(",
    "refactor: same validation, spelled differently (must NOT fire)", also=[])
mut("ref-applies-to-setter-local-names", "C19", "edgegraph/structure/universe.py",
    "        old = self._applies_to\n        self._applies_to = new\n",
    "        old, self._applies_to = self._applies_to, new\n",
    "refactor: tuple assignment in the applies_to setter (must NOT fire)", also=[])
mut("ref-randgraph-comprehension", "C20", "edgegraph/builder/randgraph.py",
    "        k = min(k, count)\n",
    "        k = count if k > count else k\n",
    "refactor: clamp spelled as a conditional (must NOT fire)", also=[])


def run(cmd, **kw):
    return subprocess.run(cmd, capture_output=True, text=True, **kw)


def main():
    only = sys.argv[1:]
    os.makedirs(OUT, exist_ok=True)
    for m in M:
        if only and not any(o in m["name"] for o in only):
            continue
        d = tempfile.mkdtemp(prefix="egsim-mk-", dir="/dev/shm")
        try:
            subprocess.run(f"git -C {REPO} archive HEAD | tar -x -C {d}", shell=True, check=True)
            path = os.path.join(d, m["file"])
            src = open(path).read()
            if src.count(m["old"]) != 1 and not m["name"].startswith("ref-pyvis-temp"):
                print(f"{m['name']}: anchor found {src.count(m['old'])} times -- skipped")
                continue
            open(path + ".new", "w").write(src.replace(m["old"], m["new"]))
            diff = run(["diff", "-u", "--label", "a/" + m["file"], "--label", "b/" + m["file"], path, path + ".new"]).stdout
            os.replace(path + ".new", path)
            cp = run([ "/venv/bin/python", "-m", "pytest", "-q", "-p", "no:cacheprovider", "-x", "-n", "4"], cwd=d, timeout=1200)
            green = cp.returncode == 0
            tail = cp.stdout.strip().splitlines()[-1] if cp.stdout.strip() else ""
            print(f"{m['name']}: tests {'green' if green else 'RED'} ({tail})")
            out = os.path.join(OUT, m["name"])
            if not green:
                shutil.rmtree(out, ignore_errors=True)
                continue
            os.makedirs(out, exist_ok=True)
            open(os.path.join(out, "patch.diff"), "w").write(diff)
            json.dump(
                {
                    "property": m["prop"],
                    "summary": m["summary"],
                    "origin": "own (DESIGN 7)",
                    "also_breaks": m["also"],
                    "expect_silent": "must NOT fire" in m["summary"],
                    "tests": tail,
                },
                open(os.path.join(out, "meta.json"), "w"),
                indent=1,
            )
        finally:
            shutil.rmtree(d, ignore_errors=True)


if __name__ == "__main__":
    main()
