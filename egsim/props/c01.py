"""
C01 -- vertex-link association is symmetric and duplicate-free after every
history (DESIGN 4/C01).

Workload: seeded histories of the listed public mutators, entered from the
vertex side, the link side and the builder side, with aliasing-biased
arguments; calls that fail part-way are sought on purpose.  Cache flag off.
Oracle (after every step, also after a step that raised): for every vertex v
and link l known to the run, `l in v.links` iff `v in l.vertices` (identity),
and v.links has no repeated element.
"""

from egsim import engine, gen
from egsim.props import common

KINDS = gen.LINK_MUTATORS + ["mk_vertex"]


def check_symmetry(snap, equal=None):
    """
    -> violation or None, from the public-accessor snapshot.

    Labels stand for object identity.  `equal(a, b)` (optional) says whether the
    objects labelled a and b compare equal with ==; it matters only for vertex
    classes with value equality, where "listed" can be read by identity or by
    equality.  The oracle demands only what holds under BOTH readings: a vertex
    that lists a link must be (equal to) one of the link's ends; an end of a
    link -- that very object -- must list the link.
    """
    for lab, d in snap.items():
        if "!" in d:
            return engine.viol(
                "C01/accessor-raised", {"obj": lab, "exc": d["!"]}
            )
    for lab, d in snap.items():
        if d["k"] in "vu":
            links = d["links"]
            if len(set(links)) != len(links):
                return engine.viol(
                    "C01/duplicate-link-in-vertex",
                    {"vertex": lab, "links": links},
                )
            for l in links:
                ld = snap.get(l)
                if ld is None or ld["k"] not in "em":
                    return engine.viol(
                        "C01/non-link-in-links", {"vertex": lab, "entry": l}
                    )
                if lab not in ld["ends"] and not (
                    equal is not None
                    and any(e is not None and equal(e, lab) for e in ld["ends"])
                ):
                    return engine.viol(
                        "C01/asym:vertex-lists-link-but-link-omits-vertex",
                        {"vertex": lab, "link": l, "ends": ld["ends"]},
                    )
        elif d["k"] in "em":
            for v in d["ends"]:
                if v is None:
                    continue
                vd = snap.get(v)
                if vd is None or vd["k"] not in "vu":
                    return engine.viol(
                        "C01/non-vertex-end", {"link": lab, "end": v}
                    )
                if lab not in vd["links"]:
                    return engine.viol(
                        "C01/asym:link-lists-vertex-but-vertex-omits-link",
                        {"link": lab, "vertex": v, "links": vd["links"]},
                    )
    return None


class C01(engine.Property):
    id = "C01"
    title = "vertex-link association symmetric and duplicate-free"
    max_steps = 80
    budget = {
        "quick": {"runs": 100000, "wall_cap_s": 600},
        "thorough": {"runs": 4000000, "wall_cap_s": 5400},
    }
    rule = (
        "one evaluation = one seeded history (swarm configuration, then 3-60 public "
        "mutator calls with aliasing-biased arguments) with the symmetry/duplicate "
        "invariant checked after every step; distinct = distinct event-log digest; "
        "non-trivial = the association changed at least 3 times and a link exists at the end"
    )
    assumptions = [
        "single-threaded use (the library documents no thread safety)",
        "observation through public accessors only (links, vertices, universes)",
        "the property does not mention neighbor caching: the flag is flipped at seeded points of a share of the histories and the invariant must hold either way",
        "with value-equal vertex classes only what holds under both the identity and the == reading of 'listed' is demanded",
        "clean batches are evidence, not proof: histories are sampled, not enumerated",
    ]
    expected_probes = [
        "set_end-on-self-loop",
        "set_end-new-equals-old",
        "set_end-new-equals-other",
        "set_end-on-half-assigned",
        "set_end-on-edge-without-two-ends",
        "vertex-side-remove-of-multiply-listed-vertex",
        "link-side-remove-of-multiply-listed-vertex",
        "two-ended-link-given-third-end",
        "self-loop-created",
        "half-assigned-edge-created",
        "value-equal-vertices-in-play",
        "handover-override-ran",
        "override-raised-after-recording-the-link",
    ]

    def make_config(self, rng):
        cfg = common.std_struct_config(rng, kinds=KINDS, always=("mk_edge",))
        cfg["p_bad"] = rng.choice([0.0, 0.05])
        cfg["raising_iterables"] = rng.random() < 0.4
        if rng.random() < 0.15:
            # a link class with value equality (== duplicates are allowed as distinct links)
            cfg["edge_classes"] = sorted(set(cfg["edge_classes"]) | {"BondEdge"})
        r = rng.random()
        if r < 0.08:
            cfg["vertex_classes"] = ["Vertex", "UnhashableVertex"]
        elif r < 0.16:
            # a subclass that presents its links in another order through the public view
            cfg["vertex_classes"] = ["Vertex", "PriorityVertex"]
        elif rng.random() < 0.12:
            # a vertex subclass whose remove_from_link override calls back into the library
            cfg["vertex_classes"] = ["Vertex", "HandoverVertex"]
            cfg["weights"]["mk_vertex"] = max(2, cfg["weights"].get("mk_vertex", 0))
        elif rng.random() < 0.15:
            # value-equal vertices: few tags, so equal-but-distinct objects abound
            cfg["vertex_classes"] = ["EqVertex"] if rng.random() < 0.5 else ["EqVertex", "Vertex"]
            cfg["value_equal"] = True
        elif rng.random() < 0.12:
            # a vertex whose add_to_link override raises AFTER the base class
            # recorded the link: the call fails, both sides must still agree
            cfg["vertex_classes"] = ["LatePortVertex"] if rng.random() < 0.5 else ["LatePortVertex", "Vertex"]
        if rng.random() < 0.1:
            # an edge class whose instances are falsy while they are being built
            cfg["edge_classes"] = sorted(set(cfg["edge_classes"]) | {"SpanEdge"})
        return cfg

    def start(self, cfg):
        st = common.HistState(cfg)
        st.gen = gen.StructGen(cfg)
        st.pending_setup = None
        return st

    def next_op(self, rng, cfg, st):
        if st.pending_setup is None:
            st.pending_setup = gen.setup_ops(rng, cfg, st.namer)
        if st.pending_setup:
            return st.pending_setup.pop(0)
        if getattr(st, "ended", False):
            return None
        if cfg.get("restarts") and rng.random() < 0.04:
            return common.restart_op(rng)
        fl = common.flag_op(rng, cfg, st)
        if fl is not None:
            return fl
        for _ in range(20):
            kind = gen.weighted_choice(rng, cfg["weights"])
            op = st.gen.draw(rng, st.view, st.namer, kind)
            if op is not None:
                return op
        return None

    def execute(self, st, op):
        if getattr(st, "ended", False):
            return None, None
        if op["op"] == "roundtrip":
            r = common.inproc_restart(st, op)
            if r == "changed":
                st.ended = True
            st.refresh()
            return {"restart": r}, None
        common.probe_link_op(st, op)
        if op["op"] in ("remove_from_link", "unlink_from", "unlink", "set_end") and any(
            d.get("cls") == "HandoverVertex" for d in st.snap.values()
        ):
            st.stats["probe:handover-override-ran"] += 1
            st.stats["fault:reentrant-call-from-subclass-override"] += 1
        before = st.snap
        out = st.ex.apply(op)
        if out is None:
            return None, None
        st.stats["op:" + op["op"]] += 1
        if out.get("exc") == "InjectedFault":
            st.stats["probe:override-raised-after-recording-the-link"] += 1
            st.stats["fault:exception-out-of-subclass-override"] += 1
        if "exc" in out:
            st.stats["fault:failing-call"] += 1
            st.stats["failing-call:" + op["op"] + ":" + out["exc"]] += 1
        snap = st.refresh()
        if snap != before:
            st.mutations += 1
        equal = None
        if st.cfg.get("value_equal"):
            objs = st.ex.w.objs
            s = st.stats
            s["probe:value-equal-vertices-in-play"] += 1

            def equal(a, b):
                return objs[a] == objs[b]

        return out, check_symmetry(snap, equal)

    def state_hash(self, st):
        return engine.h64(engine.jdump(st.snap))

    def nontrivial(self, st):
        # at least one link existed and the association changed at least twice
        return st.mutations >= 3 and bool(st.view.edges() or st.view.multis())


PROPERTY = C01()
