#!/bin/sh
# Runs every claimed check's quick (default) or thorough command against /repo, in order.
tier=${1:-quick}
cd "$(dirname "$0")/.."
rc=0
for p in C01 C02 C03 C05 C10 C11 C12 C13 C17 C18 C19 C20; do
  ./check $p --tier $tier | tail -1
  r=$?
done
grep -l '"violations": [1-9]' evidence/*.json && rc=1
exit $rc
