"""
egsim -- a small deterministic simulator with fault injection for edgegraph.

Importing this package puts the repository under test (VERIF_REPO_ROOT, default
/repo) first on sys.path and checks that `edgegraph` really comes from there, so
that every check exercises the current working tree.
"""

import os
import sys

sys.dont_write_bytecode = True

VERIF_ROOT = os.path.dirname(os.path.dirname(os.path.abspath(__file__)))
REPO_ROOT = os.path.realpath(os.environ.get("VERIF_REPO_ROOT", "/repo"))

if REPO_ROOT not in sys.path[:1]:
    sys.path.insert(0, REPO_ROOT)
if VERIF_ROOT not in sys.path:
    sys.path.insert(1, VERIF_ROOT)


class HarnessError(Exception):
    """Trouble in the machinery itself; never reported as a violation."""


def _check_origin():
    import edgegraph  # noqa

    here = os.path.realpath(edgegraph.__file__)
    if not here.startswith(REPO_ROOT + os.sep):
        raise HarnessError(
            f"edgegraph imported from {here}, expected under {REPO_ROOT}"
        )


_check_origin()
