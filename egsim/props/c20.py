"""
C20 -- randgraph always returns a universe of exactly `count` well-formed
vertices (DESIGN 4/C20).

The outcome is a function of the random generator's state -- a nondeterminism
source the simulator owns.  Each step of a run is one randgraph call under a
scheduled generator state: reseeded, continued from whatever the previous call
left, or *biased* (randint / sample as seen during the call pushed to the low
end, the high end, or alternating; any such draw is one some generator state
produces).  Every call is made twice from the same generator state and must
give the same graph.
"""

import collections
import logging
import random

import egsim  # noqa: F401
from egsim import classes as C
from egsim import engine, gen, seams
from edgegraph.builder import randgraph as RG

EDGES = [
    "DirectedEdge",
    "UnDirectedEdge",
    "SubDirected",
    "SubUnDirected",
    "OtherTwoEnded",
    "RenamedDirected",  # constructor names its ends differently
    "FalsyClassEdge",  # the class object itself is falsy
    "FrozenEdge",  # read-only v1 / v2: ends cannot be re-pointed after construction
    "JoiningEdge",  # its __init__ calls back into the library (add_to_universe)
    "BondEdge",  # value equality: a--b == b--a
    "LabelledEdge",  # class-level default overridden per instance through attributes=
    "NestingEdge",  # its __init__ calls randgraph itself (re-entrant use of the builder)
    "SpanEdge",  # instances are falsy until both ends are attached
    "ArcEdge",  # __repr__ reads both ends (raises on a half-built edge)
    "IndexedEdge",  # its __init__ reads the `i` of both ends
]


class Biased:
    """Replaces random.randint / random.sample for the duration of a call."""

    def __init__(self, mode):
        self.mode = mode
        self.n = 0
        self.real_randint = random.randint
        self.real_sample = random.sample
        self.draws = 0

    def _low(self):
        self.n += 1
        if self.mode == "low":
            return True
        if self.mode == "high":
            return False
        return self.n % 2 == 1

    def randint(self, a, b):
        self.draws += 1
        self.real_randint(a, b)  # same argument validation as the real one
        return a if self._low() else b

    def sample(self, population, k, **kw):
        self.draws += 1
        self.real_sample(population, k, **kw)  # raises exactly when the real one does
        pop = list(population)
        if self._low():
            return pop[:k]
        return pop[len(pop) - k :]

    def __enter__(self):
        random.randint = self.randint
        random.sample = self.sample
        return self

    def __exit__(self, *a):
        random.randint = self.real_randint
        random.sample = self.real_sample


def canon(u):
    """Ordered, label-free form of a generated graph (for equality)."""
    out = []
    for v in u.vertices:
        row = []
        for l in v.links:
            ends = l.vertices
            row.append(
                (
                    type(l).__name__,
                    tuple(getattr(e, "i", None) if e is not None else None for e in ends),
                )
            )
        out.append((getattr(v, "i", None), row))
    return out


def decode_conn(c):
    """connectivity as written in the op: a number, or a Fraction / Decimal spelled out"""
    if isinstance(c, dict):
        if "frac" in c:
            import fractions

            return fractions.Fraction(*c["frac"])
        import decimal

        return decimal.Decimal(c["dec"])
    return c


def call(op):
    kw = {}
    if "count" in op:
        kw["count"] = op["count"]
    if op.get("edge") is not None:
        kw["edge"] = C.EDGE_CLASSES[op["edge"]]
    if op.get("conn") is not None:
        kw["connectivity"] = decode_conn(op["conn"])
    if "ensure" in op:
        kw["ensurelink"] = op["ensure"]
    pos = []
    for name in ("count", "edge", "connectivity", "ensurelink")[: op.get("positional", 0)]:
        # the documented parameter order, used positionally as far as it goes
        if name not in kw:
            break
        pos.append(kw.pop(name))
    return _call(op, pos, kw)


def _call(op, pos, kw):
    # process-wide setting seam: the application has neighbor caching on
    seams.set_flag(bool(op.get("cache")))
    try:
        with seams.WarningsAsErrors(bool(op.get("w_error"))), DebugLogging(bool(op.get("debug_log"))):
            mode = op.get("bias")
            if mode:
                with Biased(mode):
                    return RG.randgraph(*pos, **kw)
            return RG.randgraph(*pos, **kw)
    finally:
        seams.set_flag(False)


class DebugLogging:
    """
    Process-wide setting seam: the `edgegraph` logger tree at DEBUG (records go
    to a null handler) for the duration of one call.
    """

    _null = logging.NullHandler()

    def __init__(self, on):
        self.on = on

    def __enter__(self):
        if self.on:
            lg = logging.getLogger("edgegraph")
            self.saved = (lg.level, lg.propagate)
            lg.addHandler(self._null)
            lg.setLevel(logging.DEBUG)
            lg.propagate = False

    def __exit__(self, *exc):
        if self.on:
            lg = logging.getLogger("edgegraph")
            lg.setLevel(self.saved[0])
            lg.propagate = self.saved[1]
            lg.removeHandler(self._null)
        return False


class St:
    def __init__(self, cfg):
        self.cfg = cfg
        self.stats = collections.Counter()
        self.calls = 0
        self.shapes = set()


class C20(engine.Property):
    id = "C20"
    title = "randgraph always returns a universe of exactly `count` well-formed vertices"
    max_steps = 12
    nontermination_is_violation = True
    run_wall_s = 8  # a graph of at most 40 vertices is there in milliseconds
    budget = {
        "quick": {"runs": 40000, "wall_cap_s": 600},
        "thorough": {"runs": 2000000, "wall_cap_s": 5400},
    }
    rule = (
        "one evaluation = one seeded run of 1-8 randgraph calls, each under a scheduled "
        "state of the random generator (reseeded, continued, or biased low/high/alternating) "
        "and each repeated from the same generator state; structural oracle + reproducibility "
        "on every call; distinct = distinct event-log digest; non-trivial = at least one call "
        "returned a graph with a link"
    )
    assumptions = [
        "the random module is the only nondeterminism randgraph reads",
        "biased draws replace random.randint / random.sample for the duration of a call; each "
        "is a value some generator state produces",
        "generator states are sampled, not enumerated",
    ]
    expected_probes = [
        "neighbor-caching-on-during-the-call",
        "caching-on-with-an-edge-type-neighbors()-does-not-know",
        "edge-class-that-reads-its-ends'-i-when-made",
        "debug-logging-on-during-the-call",
        "warnings-as-errors-during-the-call",
        "edge-class-that-calls-randgraph-itself",
        "count-1",
        "count<=5-default-connectivity",
        "connectivity-0",
        "connectivity-1",
        "ensurelink-off-vertex-without-out-link",
        "biased-low",
        "biased-high",
        "biased-alternating",
        "continued-generator-state",
        "self-loop-generated",
        "parallel-links-generated",
    ]

    def make_config(self, rng):
        return {
            "steps": rng.randint(1, 8),
            "p_small": rng.choice([0.3, 0.5, 0.8]),
            "p_bias": rng.choice([0.0, 0.2, 0.5]),
            "p_continue": rng.choice([0.0, 0.3, 0.6]),
            "max_count": rng.choice([6, 15, 40]),
            "p_debug_log": rng.choice([0.0, 0.0, 0.3]),
            "p_w_error": rng.choice([0.0, 0.0, 0.3]),
            "p_cache": rng.choice([0.0, 0.0, 0.3, 1.0]),
        }

    def start(self, cfg):
        return St(cfg)

    def next_op(self, rng, cfg, st):
        op = {"op": "randgraph"}
        if rng.random() < cfg["p_small"]:
            op["count"] = rng.randint(1, 6)
        else:
            op["count"] = rng.randint(1, cfg["max_count"])
        r = rng.random()
        if r < 0.35:
            op["edge"] = None
        else:
            op["edge"] = rng.choice(EDGES)
        op["conn"] = rng.choice(
            [None, None, None, 0, 1e-9, 0.5, 1, 1.0, round(rng.random(), 3)]
        )
        if rng.random() < 0.08:
            # any real number in [0, 1]
            op["conn"] = rng.choice([{"frac": [1, 3]}, {"frac": [1, 1]}, {"frac": [0, 1]}, {"dec": "0.3"}, {"dec": "1"}, {"dec": "0.75"}])
        if rng.random() < 0.2:
            op["positional"] = rng.randint(1, 4)
        r = rng.random()
        if r < 0.4:
            op["ensure"] = True
        elif r < 0.8:
            op["ensure"] = False
        if rng.random() < cfg["p_bias"]:
            op["bias"] = rng.choice(["low", "high", "alt"])
        if st.calls and rng.random() < cfg["p_continue"]:
            op["reseed"] = None
        else:
            op["reseed"] = rng.getrandbits(32)
        if rng.random() < cfg.get("p_w_error", 0.0):
            # the application runs with warnings turned into errors
            op["w_error"] = True
        if rng.random() < cfg.get("p_cache", 0.0):
            # the application has neighbor caching switched on
            op["cache"] = True
        if rng.random() < cfg.get("p_debug_log", 0.0):
            # the application has turned debug logging on for the library
            op["debug_log"] = True
        return op

    def execute(self, st, op):
        s = st.stats
        s["op:randgraph"] += 1
        st.calls += 1
        count = op["count"]
        ensure = op.get("ensure", True)
        if count == 1:
            s["probe:count-1"] += 1
        if op.get("w_error"):
            s["probe:warnings-as-errors-during-the-call"] += 1
            s["fault:process-wide-setting-changed"] += 1
        if op.get("cache"):
            s["probe:neighbor-caching-on-during-the-call"] += 1
            s["fault:process-wide-setting-changed"] += 1
            if op.get("edge") == "OtherTwoEnded":
                s["probe:caching-on-with-an-edge-type-neighbors()-does-not-know"] += 1
        if op.get("edge") == "IndexedEdge":
            s["probe:edge-class-that-reads-its-ends'-i-when-made"] += 1
        if op.get("debug_log"):
            s["probe:debug-logging-on-during-the-call"] += 1
            s["fault:process-wide-setting-changed"] += 1
        if op.get("edge") == "NestingEdge":
            s["probe:edge-class-that-calls-randgraph-itself"] += 1
            s["fault:reentrant-call-from-subclass-override"] += 1
        if count <= 5 and op.get("conn") is None:
            s["probe:count<=5-default-connectivity"] += 1
        if op.get("conn") == 0:
            s["probe:connectivity-0"] += 1
        if op.get("conn") in (1, 1.0):
            s["probe:connectivity-1"] += 1
        if op.get("bias"):
            s["probe:biased-" + {"low": "low", "high": "high", "alt": "alternating"}[op["bias"]]] += 1
            s["fault:biased-rng:" + op["bias"]] += 1
        if op.get("reseed") is None:
            s["probe:continued-generator-state"] += 1
        else:
            random.seed(op["reseed"])
        state = random.getstate()
        try:
            u = call(op)
        except Exception as exc:  # pylint: disable=broad-except
            return {"exc": type(exc).__name__}, engine.viol(
                f"C20/raised:{type(exc).__name__}", {"op": op}
            )
        after = random.getstate()
        v = self.check(u, op, count, ensure, s)
        if v is not None and v["kind"] in ("C20/universe-member-that-is-not-a-vertex", "C20/not-a-universe"):
            return {"ret": "ill-formed"}, v
        form = canon(u)
        out = {"ret": engine.h64(engine.jdump(form))}
        st.shapes.add(out["ret"])
        if v is not None:
            return out, v
        # reproducibility: same generator state -> same graph
        random.setstate(state)
        try:
            u2 = call(op)
        except Exception as exc:  # pylint: disable=broad-except
            return out, engine.viol(
                "C20/not-reproducible:second-call-raised",
                {"op": op, "exc": type(exc).__name__},
            )
        if canon(u2) != form:
            return out, engine.viol("C20/not-reproducible:different-graph", {"op": op})
        random.setstate(after)
        if any(row for _, row in form):
            st.stats["nontrivial"] = 1
        return out, None

    def check(self, u, op, count, ensure, s):
        from edgegraph.structure import Universe

        if not isinstance(u, Universe):
            return engine.viol("C20/not-a-universe", {"op": op, "type": type(u).__name__})
        from edgegraph.structure import Vertex

        members = u.vertices
        strangers = [type(m).__name__ for m in members if not isinstance(m, Vertex)]
        if strangers:
            return engine.viol(
                "C20/universe-member-that-is-not-a-vertex", {"op": op, "got": strangers[:5], "members": len(members)}
            )
        if len(members) != count:
            return engine.viol(
                "C20/wrong-vertex-count", {"op": op, "got": len(members)}
            )
        ids = sorted(getattr(v, "i", None) for v in members)
        if ids != list(range(count)):
            return engine.viol("C20/wrong-i-values", {"op": op, "got": ids[:50]})
        want = C.EDGE_CLASSES[op["edge"]] if op.get("edge") else C.EDGE_CLASSES["DirectedEdge"]
        mset = {id(v) for v in members}
        for v in members:
            is_v1 = False
            seen_pairs = set()
            for l in v.links:
                if type(l) is not want:
                    return engine.viol(
                        "C20/link-of-other-type",
                        {"op": op, "got": type(l).__name__},
                    )
                ends = l.vertices
                if len(ends) != 2 or any(e is None or id(e) not in mset for e in ends):
                    return engine.viol(
                        "C20/link-end-outside-universe",
                        {"op": op, "ends": [getattr(e, "i", None) for e in ends]},
                    )
                if not any(e is v for e in ends):
                    return engine.viol("C20/vertex-lists-foreign-link", {"op": op})
                if ends[0] is v:
                    is_v1 = True
                if ends[0] is ends[1]:
                    s["probe:self-loop-generated"] += 1
                pair = frozenset((id(ends[0]), id(ends[1])))
                if pair in seen_pairs:
                    s["probe:parallel-links-generated"] += 1
                seen_pairs.add(pair)
            if ensure and not is_v1:
                return engine.viol(
                    "C20/ensurelink-vertex-without-outgoing-link",
                    {"op": op, "i": getattr(v, "i", None)},
                )
            if not ensure and not is_v1:
                s["probe:ensurelink-off-vertex-without-out-link"] += 1
        return None

    def state_hash(self, st):
        return None

    def nontrivial(self, st):
        return bool(st.stats.get("nontrivial"))

    def extra_coverage(self, merged):
        return {
            "states_measure": "distinct graph shapes are not tracked per step for this property; "
            "see distinct_nontrivial (distinct event-log digests, each containing the hash of "
            "every generated graph)"
        }


PROPERTY = C20()
