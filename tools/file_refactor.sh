#!/bin/bash
# tools/file_refactor.sh <patch.diff> <meta.json|-> <name>
# Applies a behaviour-preserving refactor to a scratch export of /repo HEAD, runs
# the pinned test suite on it, and files it as /verif/mutants/<name> (expect_silent).
set -u
patch=$1; meta=$2; name=$3
s=$(mktemp -d /dev/shm/refac.XXXXXX)
trap 'rm -rf "$s"' EXIT
git -C /repo archive HEAD | tar -x -C "$s"
( cd "$s" && git init -q . 2>/dev/null && git apply --whitespace=nowarn "$patch" ) || { echo "$name: does not apply"; exit 1; }
out=$(cd "$s" && timeout 900 /venv/bin/python -m pytest -q -p no:cacheprovider -x -n 4 2>&1 | tail -1)
echo "$name: $out"
case "$out" in *failed*|*error*) exit 1;; esac
case "$out" in *passed*) ;; *) exit 1;; esac
d=/verif/mutants/$name
mkdir -p "$d"
cp "$patch" "$d/patch.diff"
/venv/bin/python - "$meta" "$d/meta.json" "$out" <<'PY'
import json, sys
src, dst, tests = sys.argv[1:4]
m = {}
if src != "-":
    m = json.load(open(src))
out = {
    "property": "-",
    "summary": "independent behaviour-preserving refactor (must NOT fire): " + str(m.get("summary", m.get("description", "")))[:600],
    "origin": "sub-agent given the twelve property texts and a scratch worktree, asked for realistic behaviour-preserving refactors",
    "expect_silent": True,
    "why_safe": str(m.get("why_safe", m.get("why_equivalent", m.get("rationale", ""))))[:900],
    "tests": tests,
    "files": m.get("files", []),
}
json.dump(out, open(dst, "w"), indent=1)
PY
