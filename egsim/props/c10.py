"""
C10 -- nrpickler round-trips any graph to an isomorphic, usable, detached copy
(DESIGN 4/C10).

Durability across a crash/restart boundary: only the byte string survives,
class-level state does not.  One run:

  phase 1  a world is grown by a seeded history (self-loops, parallel and
           mixed-class edges, half-assigned edges, nested and self-containing
           universes, subclasses, runtime attributes holding data and
           references to other graph objects, shared law sets) and queried
           with the flag on, so memos are warm;  -- or a deep shape (chain,
           ladder, star of chains) many times larger than the recursion limit
           in force is built;
  phase 2  `pickle`: nrpickler.dumps / dump(file), protocol 0-5, root =
           universe / vertex / link / law set / the whole world box, the
           recursion limit pushed down to a *measured* floor for deep shapes;
  phase 3  a continuation history (query battery, then mutations and reads)
           is applied to the original;
  finish   the bytes are loaded (same process, or a fresh interpreter via
           zygote fork or exec; pickle or dill; flag on/off at load time) and
           the same continuation is applied to the copy.

Oracle: serialisation returns; canonical snapshot of the copy (first-visit
numbering from the root: class qualified name, uid, public attributes, ordered
links / ends / members / universes / laws) equals the original's -- same shape
and same sharing; no object shared with the original (same-process case);
every outcome of the continuation and the final snapshot are equal on both
sides (a differential test under the same flag schedule, so that a defect that
hits original and copy alike is not blamed on pickling).
"""

import bz2
import collections
import gc
import gzip
import io
import signal
import pickle
import sys
import tempfile
import types

import egsim  # noqa: F401
from egsim import classes as C
from egsim import engine, gen, ops as O, restart, seams
from egsim.props import common, c05
from egsim.world import World, kind_of, public_attrs

from edgegraph.output import nrpickler

RULES = ("mixed_links", "cycles", "multipath", "multiverse")


# ------------------------------------------------------------------ canonical walk
def _attr_children(val, out, seen=None):
    if kind_of(val) != "o":
        out.append(val)
        return
    if not isinstance(val, (list, tuple, dict, set, frozenset)):
        return
    seen = {} if seen is None else seen
    if id(val) in seen:
        return
    seen[id(val)] = val
    if isinstance(val, dict):
        # (items, not look-ups: this walk must work on a container whose
        # members can no longer be found in it)
        for k, x in _ordered_items(val):
            _attr_children(k, out, seen)
            _attr_children(x, out, seen)
    elif isinstance(val, (set, frozenset)):
        for x in _ordered(val):
            _attr_children(x, out, seen)
    else:
        for x in val:
            _attr_children(x, out, seen)


def _ordered_items(mapping):
    pairs = list(mapping.items())
    order = {id(k): i for i, k in enumerate(_ordered([k for k, _ in pairs]))}
    return sorted(pairs, key=lambda kv: order[id(kv[0])])


def _ordered(items):
    """
    Members of a hash container in an order that does not depend on memory
    addresses: graph objects by uid (which a pickle preserves), the rest by text.
    """
    def key(x):
        if kind_of(x) != "o":
            return (1, str(getattr(x, "uid", "")))
        return (0, str(x))

    return sorted(items, key=key)


def children(obj):
    k = kind_of(obj)
    out = []
    if k in "vu":
        out.extend(obj.links)
        out.extend(obj.universes)
    if k == "u":
        out.extend(obj.vertices)
        out.append(obj.laws)
    if k in "em":
        out.extend(obj.vertices)
        out.extend(obj.universes)
    if k == "L":
        out.append(obj.applies_to)
        out.extend(obj.universes)
    attrs = public_attrs(obj)
    for name in sorted(attrs):
        _attr_children(attrs[name], out)
    return out


def canonical_world(root):
    """First-visit (breadth-first) numbering of everything reachable from root."""
    w = World()
    queue = collections.deque()

    def see(o):
        if o is None or kind_of(o) == "o":
            return
        if not w.known(o):
            w.add(f"n{len(w.objs)}", o)
            queue.append(o)

    if isinstance(root, C.WorldBox):
        for o in root.objs:
            see(o)
    else:
        see(root)
    while queue:
        o = queue.popleft()
        for c in children(o):
            see(c)
    return w


def enc(w, val):
    if val is None or isinstance(val, (bool, int, float, str)):
        return val
    if kind_of(val) != "o":
        return {"ref": w.lab(val)}
    if isinstance(val, (set, frozenset)) or (isinstance(val, dict) and any(kind_of(k) != "o" for k in val)):
        # hash containers of graph objects: their members, and whether every
        # member can still be FOUND in the container it is a member of
        members = _ordered(val)
        try:
            finds = all(m in val for m in members)
        except Exception as exc:  # pylint: disable=broad-except
            finds = "!" + type(exc).__name__
        if isinstance(val, dict):
            body = [[enc(w, k), enc(w, x)] for k, x in _ordered_items(val)]
        else:
            body = [enc(w, m) for m in members]
        return {"hash-container": type(val).__name__, "members": body, "every-member-found": finds}
    if isinstance(val, bytes) and len(val) <= 1:
        # the interpreter keeps ONE object for b"" and for each one-byte value:
        # a copy legitimately shares what the original (built by arithmetic)
        # happened to hold twice.  Values, not containers.
        return {"bytes": [len(val), engine.h64(val.hex() + str(len(val)))]}
    if isinstance(val, tuple) and not val:
        return {"tuple": []}
    if isinstance(val, (list, tuple, dict, bytes, bytearray)):
        # "shared objects still shared": containers are numbered by first
        # visit (a deterministic order: objects by canonical label, attributes
        # by name), and a second visit only names the number.  This also ends
        # the walk of a container that holds itself.
        table = w.__dict__.setdefault("container_ids", {})
        hit = table.get(id(val))
        if hit is not None and hit[1] is val:
            return {"same": hit[0]}
        num = len(table)
        table[id(val)] = (num, val)
        if isinstance(val, list):
            body = [enc(w, x) for x in val]
        elif isinstance(val, tuple):
            body = {"tuple": [enc(w, x) for x in val]}
        elif isinstance(val, dict):
            body = {"dict": [[str(k), enc(w, val[k])] for k in sorted(val, key=str)]}
        else:
            body = {"bytes": [len(val), engine.h64(bytes(val[:64]).hex() + str(len(val)))]}
        return {"c": num, "v": body}
    if isinstance(val, types.FunctionType):
        # a function is what it is called and what it answers
        try:
            answer = val(3)
        except Exception as exc:  # pylint: disable=broad-except
            answer = "!" + type(exc).__name__
        return {"function": val.__qualname__, "module": val.__module__, "of-3": answer}
    return f"?{type(val).__name__}"


def main_function(n):
    """A function whose globals are the namespace of the running script (__main__)."""
    import __main__

    ns = {}
    exec(compile(f"def script_callback_{n}(x):\n    return x * {n + 2}\n", "<script>", "exec"), __main__.__dict__, ns)  # pylint: disable=exec-used
    return ns[f"script_callback_{n}"]


def record(w, obj, with_uid=True):
    k = kind_of(obj)
    t = type(obj)
    d = {"k": k, "cls": f"{t.__module__}.{t.__qualname__}"}
    if with_uid:
        d["uid"] = obj.uid
    if k in "vu":
        d["links"] = w.labs(obj.links)
    d["universes"] = w.labs(obj.universes)
    if k == "u":
        d["members"] = w.labs(obj.vertices)
        d["laws"] = w.lab(obj.laws)
    if k in "em":
        d["ends"] = w.labs(obj.vertices)
    if k == "L":
        d["applies_to"] = w.lab(obj.applies_to)
        d["rules"] = {r: getattr(obj, r) for r in RULES}
        wl = obj.edge_whitelist
        d["whitelist"] = (
            None
            if wl is None
            else sorted(
                (a.__name__, sorted((x.__name__, y.__name__) for x, y in b.items()))
                for a, b in wl.items()
            )
        )
    attrs = public_attrs(obj)
    d["attrs"] = {name: enc(w, attrs[name]) for name in sorted(attrs)}
    slots = {}
    for klass in t.__mro__:
        for name in getattr(klass, "__slots__", ()):
            if name in ("__dict__", "__weakref__") or name.startswith("_"):
                continue
            try:
                slots[name] = enc(w, getattr(obj, name))
            except AttributeError:
                slots[name] = "<unset>"
    if slots:
        d["slots"] = slots
    return d


def canon_snapshot(w, with_uid=True):
    n0 = len(w.objs)
    snap = {}
    w.container_ids = {}
    for lab in list(w.objs):
        snap[lab] = record(w, w.objs[lab], with_uid)
    if len(w.objs) != n0:
        # something reachable was not numbered by the walk: walk bug
        raise egsim.HarnessError("canonical walk missed a reachable object")
    return snap


def digest(snap):
    return engine.h64(engine.jdump(snap))


# ------------------------------------------------------------------ executor
class PExec(O.Exec):
    def op_set_attr(self, op):
        obj = self.g(op["obj"])
        val = self.decode_val(op["val"])
        if op.get("via") == "item":
            obj[op["name"]] = val
        else:
            setattr(obj, op["name"], val)

    def op_del_attr(self, op):
        obj = self.g(op["obj"])
        if op.get("via") == "item":
            del obj[op["name"]]
        else:
            delattr(obj, op["name"])

    def decode_val(self, v):
        if isinstance(v, dict):
            if "accessor" in v:
                # exactly the object a public accessor hands out (kept by the user as an attribute)
                lab, name = v["accessor"]
                return getattr(self.g(lab), name)
            if "mainfn" in v:
                return main_function(v["mainfn"])
            if "blob" in v:
                # one bytes OBJECT per (size, key) in this world, so that several
                # attributes can share it
                blobs = self.__dict__.setdefault("blobs", {})
                key = (v["blob"], v.get("key", 0))
                if key not in blobs:
                    blobs[key] = bytes([65 + v.get("key", 0) % 26]) * v["blob"]
                return blobs[key]
            if "ref" in v:
                return self.g(v["ref"])
            if "shared" in v:
                # one OBJECT per key in this world (until the next pickle), so
                # that several attributes hold the very same container -- which
                # is then reachable from its own elements (a recursive tuple)
                table = self.__dict__.setdefault("shared_vals", {})
                key = v["shared"]
                if key not in table:
                    val = self.decode_val(v["val"])
                    if v.get("selfref") and isinstance(val, list):
                        val.append(val)
                    if v.get("selfref") and isinstance(val, dict):
                        val["me"] = val
                    table[key] = val
                return table[key]
            if "set" in v:
                return set(self.decode_val(x) for x in v["set"])
            if "fset" in v:
                return frozenset(self.decode_val(x) for x in v["fset"])
            if "keyed" in v:
                # a dictionary keyed by graph objects
                return {self.decode_val(k): self.decode_val(x) for k, x in v["keyed"]}
            if "tuple" in v:
                return tuple(self.decode_val(x) for x in v["tuple"])
            if "dict" in v:
                return {k: self.decode_val(x) for k, x in v["dict"]}
        if isinstance(v, list):
            return [self.decode_val(x) for x in v]
        return v

    def op_build_shape(self, op):
        """A large plain shape, built natively (not one op per vertex)."""
        from edgegraph.structure import Vertex, Universe

        n = op["n"]
        cls = C.EDGE_CLASSES[op["cls"]]
        shape = op["shape"]
        verts = [Vertex(attributes={"sim_tag": i % 6, "i": i}) for i in range(n)]
        edges = []
        if shape == "chain":
            for i in range(n - 1):
                edges.append(cls(verts[i], verts[i + 1]))
        elif shape == "ladder":
            for i in range(n - 2):
                edges.append(cls(verts[i], verts[i + 1]))
                edges.append(cls(verts[i], verts[i + 2]))
            if n >= 2:
                edges.append(cls(verts[n - 2], verts[n - 1]))
        elif shape == "cycle":
            for i in range(n):
                edges.append(cls(verts[i], verts[(i + 1) % n]))
        else:  # star of chains
            arms = max(2, op.get("arms", 4))
            for a in range(1, min(arms + 1, n)):
                edges.append(cls(verts[0], verts[a]))
            for i in range(1, n - arms):
                edges.append(cls(verts[i], verts[i + arms]))
        uni = None
        if op.get("universe") and n <= 3000:  # Universe membership is O(n) per add
            uni = Universe(vertices=verts)
        root = {"first": verts[0], "last": verts[-1], "universe": uni or verts[0]}[
            op.get("root", "first")
        ]
        self.w.add(op["new"], root)
        self.shape_objs = (verts, edges, uni)
        return {"vertices": n, "edges": len(edges)}


def _spec_refs(spec):
    """The {"ref": label} entries of an attribute value description."""
    out = []
    if isinstance(spec, dict):
        if "ref" in spec:
            out.append(spec)
        for key in ("val", "tuple", "set", "fset", "keyed"):
            if key in spec:
                out.extend(_spec_refs(spec[key]))
        if "dict" in spec:
            for _, x in spec["dict"]:
                out.extend(_spec_refs(x))
    elif isinstance(spec, list):
        for x in spec:
            out.extend(_spec_refs(x))
    return out


# ------------------------------------------------------------------ recursion knob
def depth_now():
    f = sys._getframe()  # pylint: disable=protected-access
    d = 0
    while f is not None:
        d += 1
        f = f.f_back
    return d


def with_limit(rel, fn):
    old = sys.getrecursionlimit()
    sys.setrecursionlimit(depth_now() + rel)
    try:
        return fn()
    finally:
        sys.setrecursionlimit(old)


_FLOOR = {}


def measured_floor(shape_op, proto, api):
    """
    Smallest limit (relative to the stack depth at the call) at which dumping
    the SAME shape with 4 vertices succeeds, in this process, now.  A limit
    below that would be a harness-made failure, not the library's.
    """
    key = (shape_op["shape"], shape_op["cls"], bool(shape_op.get("universe")), shape_op.get("root"), proto, api)
    if key in _FLOOR:
        return _FLOOR[key]
    small = dict(shape_op)
    small["n"] = 6
    small["new"] = "floor"
    ex = PExec(World())
    ex.apply(small)
    root = ex.w.objs["floor"]

    def ok(rel):
        try:
            with_limit(rel, lambda: do_dump(root, proto, api))
            return True
        except RecursionError:
            return False

    lo, hi = 10, 400
    if not ok(hi):
        _FLOOR[key] = None
        return None
    while lo < hi:
        mid = (lo + hi) // 2
        if ok(mid):
            hi = mid
        else:
            lo = mid + 1
    _FLOOR[key] = lo
    return lo


class _WriteOnly:
    """The least a binary file has to be for a pickler: something with write()."""

    def __init__(self):
        self.parts = []

    def write(self, data):
        self.parts.append(bytes(data))
        return len(data)


DUMP_WALL_S = 10  # a dump of a <=30-object world takes milliseconds


def do_dump(root, proto, api):
    """The bytes nrpickler produces, through dumps() or through dump() into some kind of binary file."""
    if api == "dump":
        f = io.BytesIO()
        nrpickler.dump(root, f, protocol=proto)
        return f.getvalue()
    if api == "dump-gzip":
        raw = io.BytesIO()
        with gzip.GzipFile(fileobj=raw, mode="wb", mtime=0) as f:
            nrpickler.dump(root, f, protocol=proto)
        return gzip.decompress(raw.getvalue())
    if api == "dump-bz2":
        raw = io.BytesIO()
        with bz2.BZ2File(raw, "wb") as f:
            nrpickler.dump(root, f, protocol=proto)
        return bz2.decompress(raw.getvalue())
    if api == "dump-file":
        with tempfile.TemporaryFile(mode="w+b") as f:
            nrpickler.dump(root, f, protocol=proto)
            f.seek(0)
            return f.read()
    if api == "dump-writeonly":
        f = _WriteOnly()
        nrpickler.dump(root, f, protocol=proto)
        return b"".join(f.parts)
    return nrpickler.dumps(root, protocol=proto)


# ------------------------------------------------------------------ far side
def run_continuation(ex, trace, deep):
    """Apply the continuation to a world; -> list of outcomes"""
    outs = []
    flag = False
    for op in trace:
        if op["op"] == "flag":
            flag = bool(op["value"])
            outs.append({"flag": flag})
            continue
        seams.set_flag(flag)
        try:
            outs.append(ex.apply(op))
        finally:
            seams.set_flag(False)
        if not deep and op["op"] not in c05.READ_OPS:
            # same discovery walk as on the original's side, so that objects
            # created inside a call get the same labels
            ex.w.snapshot()
    return outs


def cont_uid_seed(hashseed):
    """Both sides create the objects of the continuation from one uid stream."""
    return seams.derive_seed("c10-continuation-uids", hashseed)


def load_and_continue(data, loader, flag_load, trace, deep, hashseed=0):
    """-> dict(load_exc | canon digest/snapshot, outcomes, final)"""
    seams.set_flag(flag_load)
    try:
        if loader == "dill":
            import dill

            root = dill.loads(data)
        else:
            root = pickle.loads(data)
    except Exception as exc:  # pylint: disable=broad-except
        return {"load_exc": type(exc).__name__, "msg": str(exc)[:200]}
    finally:
        seams.set_flag(False)
    # whatever the copy holds only weakly goes now, not at some later moment
    # chosen by the allocator (a run must not depend on when that is)
    gc.collect()
    w = canonical_world(root)
    snap = canon_snapshot(w)
    ex = PExec(w)
    out = {
        "canon_digest": digest(snap),
        "canon": None if deep else snap,
        "objects": len(snap),
        "ids": None,
    }
    if not deep:
        # the copy is itself a graph like any other: pickling it again gives
        # the same graph once more
        try:
            again = pickle.loads(nrpickler.dumps(root, protocol=4))
            out["second_generation_digest"] = digest(canon_snapshot(canonical_world(again)))
        except Exception as exc:  # pylint: disable=broad-except
            out["second_generation_exc"] = type(exc).__name__
    seams.install_uid_stream(cont_uid_seed(hashseed))
    out["outcomes"] = run_continuation(ex, trace, deep)
    final = canon_snapshot(canonical_world(root if not isinstance(root, C.WorldBox) else root), with_uid=False)
    out["final_digest"] = digest(final)
    out["final"] = None if deep else final
    out["_root"] = root
    out["_world"] = w
    return out


def child_side(payload):
    seams.reset_process_state(("c10-child", payload["run_seed"]))
    res = load_and_continue(
        payload["bytes"], payload["loader"], payload["flag_load"], payload["trace"], payload["deep"],
        hashseed=payload.get("op", {}).get("hashseed", 0),
    )
    res.pop("_root", None)
    res.pop("_world", None)
    stats = seams.cache_stats_totals()
    res["cache_stats"] = stats
    return res


# ------------------------------------------------------------------ the property
class St(common.HistState):
    def __init__(self, cfg):
        super().__init__(cfg)
        self.ex = PExec(World())
        self.gen = gen.StructGen(cfg)
        self.pending = None
        self.flag = False
        self.phase = 1
        self.bytes = None
        self.pickle_op = None
        self.canon0 = None
        self.trace = []
        self.outcomes = []
        self.root = None
        self.orig_ids = None
        self.step_no = 0
        self.focus = []
        self.done = False
        self.shared_epoch = 0


ATTR_NAMES = ["colour", "weight", "note", "peer", "bag"]


class C10(engine.Property):
    id = "C10"
    title = "nrpickler round-trips any graph to an isomorphic, usable, detached copy"
    max_steps = 110
    uses_restart = True
    nontermination_is_violation = True
    run_wall_s = 240
    budget = {
        "quick": {"runs": 4000, "wall_cap_s": 1200, "chunk": 25},
        "thorough": {"runs": 200000, "wall_cap_s": 5400, "chunk": 100},
    }
    rule = (
        "one evaluation = one seeded run: a world grown by a history (or a deep shape 3-20x "
        "the recursion limit in force), dumped with nrpickler (dumps/dump, protocol 0-5, root "
        "= universe/vertex/link/laws/world box), loaded in the same process or a fresh "
        "interpreter (zygote/exec; pickle/dill; flag on/off), canonical snapshots compared, "
        "then a continuation of reads and mutations applied to original and copy with every "
        "outcome and the final snapshot compared; distinct = distinct event-log digest; "
        "non-trivial = the pickled graph had at least 3 objects and the continuation at "
        "least 3 steps"
    )
    assumptions = [
        "single-threaded use; classes of pickled objects are importable on the far side",
        "the recursion-limit floor is measured per process on the same shape with 6 vertices; "
        "limits below it are never used",
        "zygote forks stand for fresh interpreters; a fixed share are real exec restarts",
        "original and copy run the continuation under the same flag schedule",
        "graphs, roots, protocols and continuations are sampled, not enumerated",
    ]
    expected_probes = [
        "root:box",
        "root:vertex",
        "root:universe",
        "root:link",
        "root:laws",
        "api:dump-to-file",
        "api:dump-to-gzip",
        "api:dump-to-bz2",
        "api:dump-to-writeonly",
        "loader:dill",
        "loader:pickle",
        "warm-memo-pickled",
        "attribute-referencing-graph-object",
        "self-containing-universe",
        "shared-laws-moved",
        "half-assigned-edge-pickled",
        "deep:chain",
        "deep:ladder",
        "deep:star",
        "deep:cycle",
        "deep-under-lowered-recursion-limit",
        "fresh-interpreter-flag-on-at-load",
        "continuation-mutation-on-copy",
        "bytes-attribute",
        "slotted-attributes-pickled",
        "law-set-made-a-universe-member",
        "attribute-holding-an-accessor-result",
        "container-shared-between-attributes",
        "warm-memo-then-mutation-then-same-read-on-the-copy",
        "hash-container-of-graph-objects-as-attribute",
        "equal-but-not-identical-constant-tuples",
    ]

    # -- configuration --------------------------------------------------------------------
    def make_config(self, rng):
        deep = rng.random() < 0.025
        kinds = (
            c05.MUTATORS
            + c05.DEGENERATE
            + ["uni_add", "uni_add", "v_add_uni", "uni_remove", "mk_vertex_unis", "mk_universe_verts"]
        )
        cfg = common.std_struct_config(
            rng, kinds=kinds, always=("mk_edge", "uni_add"), multi_p=0.15, lo=6, hi=50, mean=18
        )
        cfg["deep"] = deep
        r = rng.random()
        if r < 0.2:
            # attributes kept in __slots__ (Python itself pickles those from protocol 2 on)
            cfg["vertex_classes"] = ["Vertex", "SlottedVertex"]
        elif r < 0.3:
            # vertices with value equality and an attribute-based hash
            cfg["vertex_classes"] = ["Vertex", "EqVertex"]
        elif r < 0.38:
            # a vertex class whose __getstate__ itself calls nrpickler.dumps
            cfg["vertex_classes"] = ["Vertex", "NestingVertex"]
        elif r < 0.46:
            # a vertex class with its own __setstate__ (written without super())
            cfg["vertex_classes"] = ["Vertex", "MigratingVertex"]
        elif r < 0.58:
            # a vertex class that cannot be found by name on the loading side:
            # the pickle carries the class itself
            cfg["vertex_classes"] = ["Vertex", rng.choice(sorted(C.LOCAL_VERTEX_CLASSES))]
            cfg["by_value_class"] = True
        cfg["nu"] = rng.randint(0, 3)
        cfg["grow"] = rng.randint(3, 25)
        cfg["cont"] = rng.randint(3, 25)
        cfg["steps"] = cfg["nv"] + cfg["nu"] + cfg["grow"] + cfg["cont"] + 12
        cfg["nested_universes"] = rng.random() < 0.5
        cfg["universes_as_ends"] = rng.random() < 0.3
        cfg["universe_classes"] = rng.choice([["Universe"], ["Universe", "SubUniverse"], ["Universe", "FalsyUniverse"]])
        cfg["p_attr"] = rng.choice([0.05, 0.15, 0.3])
        cfg["p_laws"] = rng.choice([0.0, 0.05, 0.1, 0.2])
        cfg["p_read1"] = rng.choice([0.2, 0.4])
        cfg["nb_filters"] = rng.choice(
            [
                [None],
                [None, "accept", "even", "dironly"],
                # inline-lambda style filters: pickled BY VALUE when they sit in a warm memo
                [None, "~even", "~global"],
            ]
        )
        cfg["result_filters"] = [None, "even"]
        cfg["read_weights"] = {"neighbors": 3, "trav": 2, "search": 1}
        cfg["p_read"] = rng.choice([0.4, 0.6])
        cfg["cache1"] = rng.random() < 0.7
        cfg["cache3"] = rng.choice(["off", "on", "toggling"])
        cfg["pickle"] = {
            "proto": rng.randint(2 if "SlottedVertex" in cfg["vertex_classes"] else 0, 5),
            "api": rng.choice(["dumps", "dumps", "dumps", "dump", "dump", "dump-gzip", "dump-bz2", "dump-file", "dump-writeonly"]),
            "loader": rng.choice(["pickle", "dill"]),
            "mode": rng.choice(["inproc"] * 12 + ["zygote"] * 6 + ["exec"]),
            "root_kind": rng.choice(["box", "box", "v", "u", "e", "L", "any"]),
            "flag_dump": rng.random() < 0.5,
            "flag_load": rng.random() < 0.5,
            "hashseed": rng.randint(0, 4294967295),
        }
        if deep:
            limit_mode = rng.choice(["low", "low", "default"])
            cfg["shape"] = {
                "shape": rng.choice(["chain", "ladder", "star", "cycle"]),
                "cls": rng.choice(["DirectedEdge", "UnDirectedEdge", "SubDirected"]),
                "universe": rng.random() < 0.3,
                "root": rng.choice(["first", "first", "last", "universe"]),
                "arms": rng.randint(2, 6),
                "limit_mode": limit_mode,
                "headroom": rng.randint(3, 40),
                "factor": rng.choice([3, 5, 8, 20]) if limit_mode == "low" else rng.choice([3, 3, 4]),
            }
            cfg["pickle"]["mode"] = rng.choice(["inproc", "inproc", "zygote"])
            cfg["cont"] = rng.randint(3, 8)
        return cfg

    def start(self, cfg):
        st = St(cfg)
        st.flag = bool(cfg["cache1"])
        return st

    # -- generation ---------------------------------------------------------------------------
    def next_op(self, rng, cfg, st):
        if st.phase == 1:
            op = self._phase1(rng, cfg, st)
            if op is not None:
                return op
            st.phase = 2
        if st.phase == 2:
            st.phase = 3
            return self._pickle_op(rng, cfg, st)
        if st.bytes is None:
            return None
        return self._phase3(rng, cfg, st)

    def _phase1(self, rng, cfg, st):
        if cfg["deep"]:
            if st.pending is None:
                st.pending = []
                sh = cfg["shape"]
                if sh["limit_mode"] == "low":
                    n_limit = 150
                else:
                    n_limit = sys.getrecursionlimit()
                op = {"op": "build_shape", "new": "root"}
                op.update({k: sh[k] for k in ("shape", "cls", "universe", "root", "arms")})
                op["n"] = max(8, n_limit * sh["factor"])
                return op
            return None
        if st.pending is None:
            st.pending = gen.setup_ops(rng, cfg, st.namer)
            st.grow_left = cfg["grow"]
        if st.pending:
            return st.pending.pop(0)
        if st.grow_left <= 0:
            return None
        st.grow_left -= 1
        view = st.view
        for _ in range(10):
            r = rng.random()
            if r < cfg["p_attr"]:
                op = self._attr_op(rng, st)
            elif r < cfg["p_attr"] + cfg["p_laws"] and view.universes() and view.laws():
                if rng.random() < 0.3:
                    # a universe may contain any BaseObject -- a law set too,
                    # even the one that applies to it
                    op = {"op": "uni_add", "u": rng.choice(view.universes()), "v": rng.choice(view.laws())}
                    st.stats["probe:law-set-made-a-universe-member"] += 1
                else:
                    op = {"op": "set_laws", "u": rng.choice(view.universes()), "L": rng.choice(view.laws() + [None])}
            elif r < cfg["p_attr"] + cfg["p_laws"] + cfg["p_read1"]:
                kind = gen.weighted_choice(rng, cfg["read_weights"])
                op = getattr(st.gen, "g_" + kind)(rng, view, st.namer, focus=st.focus[-4:])
            else:
                kind = gen.weighted_choice(rng, cfg["weights"])
                if kind == "adj_dict":
                    op = gen.g_adj_dict(st.gen, rng, view, st.namer)
                elif kind == "adj_matrix":
                    op = gen.g_adj_matrix(st.gen, rng, view, st.namer)
                else:
                    op = st.gen.draw(rng, view, st.namer, kind)
            if op is not None:
                return op
        return None

    def _attr_op(self, rng, st):
        view = st.view
        objs = view.vertices() + view.edges() + view.multis()
        if not objs:
            return None
        queued = getattr(st, "attr_queue", None)
        if queued:
            op = queued.pop(0)
            if op["obj"] in view.snap:
                return op
        obj = rng.choice(objs)
        name = rng.choice(ATTR_NAMES)
        r = rng.random()
        refs = view.vertices() + view.edges() or objs
        if r < 0.03:
            # a callback kept on a graph object, defined by the running script
            # itself (its globals are the namespace of __main__)
            val = {"mainfn": rng.randrange(3)}
            st.stats["probe:attribute-holding-a-function-of-the-running-script"] += 1
        elif r < 0.05 and view.edges():
            e = rng.choice(view.edges())
            val = {"accessor": [e, "vertices"]}
            st.stats["probe:attribute-holding-an-accessor-result"] += 1
        elif r < 0.07 and view.vertices():
            val = {"accessor": [rng.choice(view.vertices()), rng.choice(["links", "universes"])]}
            st.stats["probe:attribute-holding-an-accessor-result"] += 1
        elif r < 0.16 and refs:
            # one container OBJECT held by several attributes; with the holder
            # among its own elements it is reachable from itself
            specs = st.__dict__.setdefault("shared_specs", {})
            key = f"s{st.shared_epoch}-{rng.randrange(2)}"
            if key not in specs:
                shape = rng.choice(["tuple", "tuple", "tuple", "list", "dict"])
                # (a list or dict may well be EMPTY while it is shared: a journal
                # nobody has written to yet)
                lo = 1 if shape == "tuple" else 0
                hi = 0 if (shape != "tuple" and rng.random() < 0.35) else 4
                members = [{"ref": x} for x in rng.sample(refs, min(len(refs), rng.randint(lo, max(lo, hi))))]
                spec = {"shared": key}
                if shape == "tuple":
                    spec["val"] = {"tuple": members + ([rng.randrange(5)] if rng.random() < 0.3 else [])}
                elif shape == "list":
                    spec["val"] = members
                    spec["selfref"] = rng.random() < 0.5
                else:
                    spec["val"] = {"dict": [[f"k{i}", m] for i, m in enumerate(members)]}
                    spec["selfref"] = rng.random() < 0.5
                specs[key] = spec
            val = specs[key]
            inner = [m["ref"] for m in _spec_refs(val)]
            if inner and rng.random() < 0.6:
                obj = rng.choice(inner)
            if rng.random() < 0.5:
                # a second holder of the very same container, next
                st.attr_queue = getattr(st, "attr_queue", []) + [
                    {"op": "set_attr", "obj": rng.choice(objs), "name": rng.choice(ATTR_NAMES), "val": val, "via": rng.choice(["item", "attr"])}
                ]
            st.stats["probe:container-shared-between-attributes"] += 1
        elif r < 0.20 and self._plain_hashed(view, refs):
            # hash containers of graph objects (the "team" pattern: members
            # carry the set of members; a lookup table keyed by vertices).
            # Only classes that hash by identity: an object hashed by VALUE
            # cannot sit in a set that is part of a cycle through itself --
            # pickle fills the set before the object has its state back
            plain = self._plain_hashed(view, refs)
            members = [{"ref": x} for x in rng.sample(plain, min(len(plain), rng.randint(1, 4)))]
            kind = rng.choice(["set", "fset", "keyed"])
            if kind == "keyed":
                val = {"keyed": [[m, i] for i, m in enumerate(members)]}
            else:
                val = {kind: members}
            if rng.random() < 0.5:
                obj = rng.choice([m["ref"] for m in members])
            st.stats["probe:hash-container-of-graph-objects-as-attribute"] += 1
        elif r < 0.24:
            # binary data: small and shared between attributes, or past the
            # size at which pickle writes bytes out of band (64 KiB)
            val = {"blob": rng.choice([0, 3, 3, 40, 65536, 70001]), "key": rng.randrange(2)}
            st.stats["probe:bytes-attribute"] += 1
        elif r < 0.27:
            # tuples of constants that compare equal to one another but are not
            # the same values (bool / int / float, signed zero)
            family = rng.choice([[[True, False], [1, 0], [1.0, 0.0]], [[2.0, 4], [2, 4]], [[-0.0, 1.0], [0.0, 1.0], [0, 1.0]]])
            first, second = rng.sample(family, 2)
            val = {"tuple": first}
            # ... and its equal twin on another object, next
            st.attr_queue = getattr(st, "attr_queue", []) + [
                {"op": "set_attr", "obj": rng.choice(objs), "name": rng.choice(ATTR_NAMES), "val": {"tuple": second}, "via": "attr"}
            ]
            st.stats["probe:equal-but-not-identical-constant-tuples"] += 1
        elif r < 0.33:
            val = rng.choice([0, 1, -7, 2.5, "text", "", None, True])
        elif r < 0.5:
            val = {"ref": rng.choice(refs)}
        elif r < 0.65:
            val = [{"ref": rng.choice(refs)} for _ in range(rng.randint(0, 3))]
        elif r < 0.8:
            val = {"dict": [["k", {"ref": rng.choice(refs)}], ["n", rng.randrange(9)], ["l", [1, [2, [3]]]]]}
        elif r < 0.9:
            val = {"tuple": [1, "two", {"ref": obj}]}
        else:
            return {"op": "del_attr", "obj": obj, "name": name, "via": rng.choice(["item", "attr"])}
        return {"op": "set_attr", "obj": obj, "name": name, "val": val, "via": rng.choice(["item", "attr"])}

    @staticmethod
    def _plain_hashed(view, refs):
        odd = ("EqVertex", "EqUniverse", "UnhashableVertex", "UnhashableUniverse", "BondEdge")
        return [x for x in refs if view.snap.get(x, {}).get("cls") not in odd]

    def _pickle_op(self, rng, cfg, st):
        # the copy starts without the containers shared so far: new keys from here on
        st.shared_epoch += 1
        p = cfg["pickle"]
        view = st.view
        op = {"op": "pickle"}
        op.update({k: p[k] for k in ("proto", "api", "loader", "mode", "flag_dump", "flag_load", "hashseed")})
        if cfg["deep"]:
            op["root"] = "root"
            sh = cfg["shape"]
            if sh["limit_mode"] == "low":
                op["headroom"] = sh["headroom"]
            return op
        kind = p["root_kind"]
        cands = []
        if kind in ("v", "u", "e", "L"):
            cands = view.kind(kind)
        elif kind == "any":
            cands = list(view.snap)
        op["root"] = rng.choice(cands) if cands else "*box*"
        return op

    def _phase3(self, rng, cfg, st):
        if len(st.trace) >= cfg["cont"] + 8:
            return None
        view = st.view
        if cfg["deep"]:
            return self._deep_cont(rng, cfg, st)
        if st.pending is None or st.pending == []:
            if not getattr(st, "battery_done", False):
                st.battery_done = True
                st.pending = self._battery(rng, cfg, st)
                warm = getattr(st, "warm_reads_c", [])
                if warm and rng.random() < 0.6:
                    # the memo came along in the pickle: change the copy next to
                    # a vertex whose answer is in it, then ask the same again
                    # with caching on
                    r = rng.choice(warm)
                    x = r.get("v") or r.get("s")
                    vs = view.vertices()
                    links = [l for l in view.links_of(x) if view.snap.get(l, {}).get("k") == "e"] if x in view.snap else []
                    pre = []
                    if links and rng.random() < 0.5:
                        pre.append({"op": "unlink_from", "e": rng.choice(links), "v": x})
                    elif vs and x in view.snap:
                        pre.append({"op": "mk_edge", "new": st.namer.new("e"), "cls": "DirectedEdge", "a": x, "b": rng.choice(vs)})
                    if pre:
                        st.stats["probe:warm-memo-then-mutation-then-same-read-on-the-copy"] += 1
                        if rng.random() < 0.5:
                            pre.insert(0, {"op": "flag", "value": rng.random() < 0.5})
                        st.pending = pre + [{"op": "flag", "value": True}, dict(r)] + st.pending
        if st.pending:
            return st.pending.pop(0)
        if cfg["cache3"] == "toggling" and rng.random() < 0.15:
            return {"op": "flag", "value": not st.flag}
        for _ in range(10):
            if rng.random() < cfg["p_read"]:
                kind = gen.weighted_choice(rng, cfg["read_weights"])
                op = getattr(st.gen, "g_" + kind)(rng, view, st.namer, focus=st.focus[-4:])
            elif rng.random() < 0.15:
                op = self._attr_op(rng, st)
            else:
                kind = gen.weighted_choice(rng, cfg["weights"])
                if kind in ("adj_dict", "adj_matrix"):
                    continue
                op = st.gen.draw(rng, view, st.namer, kind)
            if op is not None:
                return op
        return None

    def _battery(self, rng, cfg, st):
        view = st.view
        ops = [{"op": "flag", "value": cfg["cache3"] != "off"}]
        vs = view.vertices()
        rng_vs = rng.sample(vs, min(3, len(vs))) if vs else []
        for v in rng_vs:
            for d in ("fwd", "any", "back"):
                ops.append({"op": "neighbors", "v": v, "dir": d, "unk": rng.choice(["non", "nb"])})
            for fn in sorted(O.TRAVS):
                ops.append({"op": "trav", "fn": fn, "u": None, "s": v, "dir": rng.choice(["fwd", "any"]), "unk": "nb"})
            for fn in sorted(O.SEARCHES):
                ops.append({"op": "search", "fn": fn, "u": None, "s": v, "attr": "sim_tag", "val": rng.randrange(6)})
        for u in view.universes()[:2]:
            if view.snap[u].get("members"):
                s = view.snap[u]["members"][0]
                ops.append({"op": "trav", "fn": "bft", "u": u, "s": s, "unk": "nb"})
                ops.append({"op": "trav", "fn": "dft_iterative", "u": u, "s": s, "unk": "nb"})
        rng.shuffle(ops)
        ops = ops[: 6 + cfg["cont"] // 2]
        ops.insert(0, {"op": "flag", "value": cfg["cache3"] != "off"})
        return ops

    def _deep_cont(self, rng, cfg, st):
        w = st.ex.w
        vs = w.labels_of_kind("v")
        es = w.labels_of_kind("e")
        if not vs:
            return None
        n = len(st.trace)
        if n == 0:
            return {"op": "flag", "value": cfg["cache3"] != "off"}
        r = rng.random()
        v = rng.choice([vs[0], vs[-1], rng.choice(vs)])
        if r < 0.35:
            return {"op": "neighbors", "v": v, "dir": rng.choice(["fwd", "any", "back"])}
        if r < 0.5:
            return {"op": "trav", "fn": rng.choice(["bft", "dft_iterative", "ibft", "idft_iterative"]), "u": None, "s": v, "dir": rng.choice(["fwd", "any"])}
        if r < 0.6 and es:
            return {"op": "set_end", "e": rng.choice(es), "which": rng.choice([1, 2]), "x": rng.choice(vs)}
        if r < 0.7:
            return {"op": "mk_edge", "new": st.namer.new("e"), "cls": "DirectedEdge", "a": v, "b": rng.choice(vs)}
        if r < 0.8 and es:
            e = rng.choice(es)
            return {"op": "unlink_from", "e": e, "v": rng.choice(vs[:3] + [v])}
        return {"op": "search", "fn": rng.choice(["bfs", "dfs_iterative"]), "u": None, "s": v, "attr": "i", "val": rng.randrange(2000)}

    # -- execution ---------------------------------------------------------------------------------
    def execute(self, st, op):
        k = op["op"]
        s = st.stats
        if k == "pickle":
            return self._do_pickle(st, op)
        if st.bytes is None:
            # phase 1
            if k == "flag":
                st.flag = bool(op["value"])
                return {"flag": st.flag}, None
            seams.set_flag(st.flag)
            try:
                out = st.ex.apply(op)
            finally:
                seams.set_flag(False)
            if out is None:
                return None, None
            s["op:" + k] += 1
            if k == "build_shape":
                s["probe:deep:" + op["shape"]] += 1
                return out, None
            if k in c05.READ_OPS:
                tgt = op.get("v") or op.get("s")
                if tgt:
                    st.focus.append(tgt)
                if st.flag:
                    st.warmed = True
                    if k in ("neighbors", "trav", "search") and "exc" not in out:
                        st.warm_reads = (getattr(st, "warm_reads", []) + [dict(op)])[-4:]
            else:
                st.refresh()
                if k == "set_attr" and "ref" in engine.jdump(op["val"]):
                    s["probe:attribute-referencing-graph-object"] += 1
                if k in ("uni_add", "v_add_uni") and op["u"] == op["v"]:
                    s["probe:self-containing-universe"] += 1
                if k == "set_laws":
                    s["probe:shared-laws-moved"] += 1
            return out, None
        # phase 3: the continuation, on the original
        st.trace.append(op)
        if k == "flag":
            st.flag = bool(op["value"])
            st.outcomes.append({"flag": st.flag})
            return {"flag": st.flag}, None
        seams.set_flag(st.flag)
        try:
            out = st.ex.apply(op)
        finally:
            seams.set_flag(False)
        st.outcomes.append(out)
        if out is None:
            st.trace.pop()
            st.outcomes.pop()
            return None, None
        s["op:" + k] += 1
        if k not in c05.READ_OPS:
            s["probe:continuation-mutation-on-copy"] += 1
            if not st.cfg["deep"]:
                st.refresh()
        return out, None

    def _do_pickle(self, st, op):
        s = st.stats
        w0 = st.ex.w
        if op["root"] == "*box*":
            root = C.WorldBox(list(w0.objs), list(w0.objs.values()))
            s["probe:root:box"] += 1
        else:
            if op["root"] not in w0.objs:
                return None, None
            root = w0.objs[op["root"]]
            s[
                "probe:root:"
                + {"v": "vertex", "u": "universe", "e": "link", "m": "link", "L": "laws"}[w0.kind[op["root"]]]
            ] += 1
        s["op:pickle"] += 1
        s["probe:loader:" + op["loader"]] += 1
        if op["api"].startswith("dump-") or op["api"] == "dump":
            s["probe:api:dump-to-file"] += 1
        if op["api"].startswith("dump-"):
            s["probe:api:dump-to-" + op["api"][5:]] += 1
        if getattr(st, "warmed", False):
            s["probe:warm-memo-pickled"] += 1
        deep = st.cfg["deep"]
        # the far side starts without this side's table of shared containers
        st.ex.__dict__.pop("shared_vals", None)
        st.ex.__dict__.pop("blobs", None)
        # the original, renumbered canonically from the root
        # (only numbered here; what the objects say -- their uids too -- is
        # recorded after the dump, so that nothing is read for the first time
        # by this harness before the pickle is taken)
        wc = canonical_world(root)
        seams.set_flag(op["flag_dump"])
        try:
            if deep and "headroom" in op:
                floor = measured_floor(self._shape_op(st), op["proto"], op["api"])
                if floor is None:
                    raise egsim.HarnessError("could not measure a recursion floor under 400 frames")
                s["probe:deep-under-lowered-recursion-limit"] += 1
                s["fault:recursion-limit-lowered"] += 1
                data = with_limit(floor + op["headroom"], lambda: do_dump(root, op["proto"], op["api"]))
            elif deep:
                data = do_dump(root, op["proto"], op["api"])
            else:
                # serialisation must come back: for small worlds (a dump takes
                # milliseconds) the run's watchdog is wound down to a few
                # seconds for the duration of the dump
                left = signal.alarm(0)
                signal.alarm(DUMP_WALL_S)
                try:
                    data = do_dump(root, op["proto"], op["api"])
                finally:
                    signal.alarm(left)
        except egsim.HarnessError:
            raise
        except O.Watchdog:
            return {"exc": "<did not return>"}, engine.viol(
                "C10/serialisation-does-not-return",
                {"op": op, "objects": len(wc.objs), "classes": sorted({type(o).__name__ for o in wc.objs.values()})},
            )
        except Exception as exc:  # pylint: disable=broad-except
            kind = "C10/serialisation-raised:" + type(exc).__name__
            return {"exc": type(exc).__name__}, engine.viol(
                kind, {"op": op, "objects": len(wc.objs), "msg": str(exc)[:200]}
            )
        finally:
            seams.set_flag(False)
        canon0 = canon_snapshot(wc)
        for d in canon0.values():
            if d["k"] == "e" and None in d["ends"]:
                s["probe:half-assigned-edge-pickled"] += 1
                break
        if any("slots" in d for d in canon0.values()):
            s["probe:slotted-attributes-pickled"] += 1
        # the continuation's new objects get their uids from a stream both sides start alike
        seams.install_uid_stream(cont_uid_seed(op.get("hashseed", 0)))
        st.bytes = data
        st.pickle_op = op
        st.root = root
        st.canon0 = canon0
        st.canon0_digest = digest(canon0)
        st.orig_ids = {id(o) for o in wc.objs.values()}
        # reads whose answers sit in the memos that were just pickled, in the
        # copy's numbering
        st.warm_reads_c = []
        for r in getattr(st, "warm_reads", []):
            r2 = dict(r)
            ok = True
            for key in ("v", "s", "u"):
                if r2.get(key) is not None:
                    o = w0.objs.get(r2[key])
                    if o is None or not wc.known(o):
                        ok = False
                        break
                    r2[key] = wc.lab(o)
            if ok:
                st.warm_reads_c.append(r2)
        st.ex = PExec(wc)
        st.ex.shape_objs = None
        st.nobjects = len(canon0)
        if not deep:
            st.refresh()
        st.flag = False
        st.focus = []
        return {"bytes": len(data) > 0, "objects": len(canon0), "canon": st.canon0_digest}, None

    def _shape_op(self, st):
        sh = st.cfg["shape"]
        op = {k: sh[k] for k in ("shape", "cls", "universe", "root", "arms")}
        op["op"] = "build_shape"
        return op

    # -- the far side, and the comparison ------------------------------------------------------
    def finish(self, st):
        if st.bytes is None or st.done:
            return None
        st.done = True
        s = st.stats
        op = st.pickle_op
        deep = st.cfg["deep"]
        seams.set_flag(False)
        final0 = canon_snapshot(canonical_world(st.root), with_uid=False)
        mode = op["mode"]
        s["restart:" + mode] += 1
        s["fault:restart"] += 1
        if mode != "inproc" and op["flag_load"]:
            s["probe:fresh-interpreter-flag-on-at-load"] += 1
        if mode == "inproc":
            res = load_and_continue(st.bytes, op["loader"], op["flag_load"], st.trace, deep, hashseed=op.get("hashseed", 0))
            wcopy = res.pop("_world", None)
            res.pop("_root", None)
            if wcopy is not None:
                shared = [lab for lab, o in wcopy.objs.items() if id(o) in st.orig_ids]
                if shared:
                    return engine.viol(
                        "C10/copy-shares-objects-with-original", {"labels": shared[:10]}
                    )
                res["canon"] = res["canon"] if not deep else None
        else:
            payload = {
                "bytes": st.bytes,
                "loader": op["loader"],
                "flag_load": op["flag_load"],
                "trace": st.trace,
                "deep": deep,
                "run_seed": 0,
                "op": {"hashseed": op.get("hashseed", 0)},
            }
            res = restart.call_rpc(mode, "egsim.props.c10:child_side", payload, op.get("hashseed", 0))
        if "load_exc" in res:
            return engine.viol(
                "C10/load-raised:" + res["load_exc"],
                {"loader": op["loader"], "mode": mode, "msg": res.get("msg")},
            )
        if res["canon_digest"] != st.canon0_digest:
            diff = None
            if res.get("canon") is not None:
                from egsim import model as M

                diff = M.first_difference(res["canon"], st.canon0)
            return engine.viol(
                "C10/copy-not-isomorphic",
                {"objects_original": st.nobjects, "objects_copy": res["objects"], "diff(copy,orig)": diff, "mode": mode, "loader": op["loader"], "proto": op["proto"]},
            )
        if "second_generation_exc" in res:
            return engine.viol(
                "C10/copy-cannot-be-pickled-again:" + res["second_generation_exc"], {"mode": mode}
            )
        if res.get("second_generation_digest", st.canon0_digest) != st.canon0_digest:
            return engine.viol("C10/second-generation-copy-not-isomorphic", {"mode": mode})
        for i, (a, b) in enumerate(zip(st.outcomes, res["outcomes"])):
            if a != b:
                return engine.viol(
                    "C10/copy-behaves-differently:" + st.trace[i]["op"],
                    {"step": i, "op": st.trace[i], "original": _short(a), "copy": _short(b), "mode": mode, "flag_load": op["flag_load"]},
                )
        if res["final_digest"] != digest(final0):
            diff = None
            if res.get("final") is not None:
                from egsim import model as M

                diff = M.first_difference(res["final"], final0)
            return engine.viol(
                "C10/final-state-differs-after-continuation",
                {"diff(copy,orig)": diff, "mode": mode},
            )
        if mode != "inproc" and res.get("cache_stats") and res["cache_stats"][0]:
            s["probe:cache-hit-in-fresh-interpreter"] += 1
        return None

    def capsule_failed(self, st, op, exc):
        return None

    def state_hash(self, st):
        if st.bytes is not None and not st.trace:
            return st.canon0_digest
        return None

    def nontrivial(self, st):
        return st.bytes is not None and getattr(st, "nobjects", 0) >= 3 and len(st.trace) >= 3


def _short(out):
    s = engine.jdump(out)
    if len(s) > 300:
        return {"digest": engine.h64(s), "head": s[:200]}
    return out


PROPERTY = C10()
