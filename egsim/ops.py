"""
Operation vocabulary, real side: each operation is a JSON-able dict executed
against a World through edgegraph's public API only.

`Exec.apply(op)` returns a normalised outcome:
    {"ret": <labels / plain data>}   the call returned
    {"exc": "<ExceptionClassName>"}  the call raised
    None                              skipped: a label it names does not exist
                                      (this is what makes every sub-list of a
                                      history a valid history for shrinking)
"""

import collections.abc
import io

import egsim  # noqa: F401
from egsim import classes as C
from egsim.world import World, kind_of
from edgegraph.structure import Vertex, Universe, Link
from edgegraph.structure.universe import UniverseLaws
from edgegraph.builder import explicit, adjlist, adjmatrix
from edgegraph.traversal import helpers, breadthfirst, depthfirst

SKIP = None


class _Missing(Exception):
    pass


class Watchdog(BaseException):
    """A single run exceeded its wall budget (see runner)."""


DIRS = {
    "fwd": helpers.DIR_SENS_FORWARD,
    "any": helpers.DIR_SENS_ANY,
    "back": helpers.DIR_SENS_BACKWARD,
    # the direction given as a plain bool (True == 1, False == 0), as the
    # sibling find_links() takes it
    "T": True,
    "F": False,
}
UNKS = {
    "non": helpers.LNK_UNKNOWN_NONNEIGHBOR,
    "nb": helpers.LNK_UNKNOWN_NEIGHBOR,
    "err": helpers.LNK_UNKNOWN_ERROR,
}
TRAVS = {
    "bft": breadthfirst.bft,
    "ibft": breadthfirst.ibft,
    "dft_recursive": depthfirst.dft_recursive,
    "idft_recursive": depthfirst.idft_recursive,
    "dft_iterative": depthfirst.dft_iterative,
    "idft_iterative": depthfirst.idft_iterative,
}
GEN_TRAVS = ("ibft", "idft_recursive", "idft_iterative")
SEARCHES = {
    "bfs": breadthfirst.bfs,
    "dfs_recursive": depthfirst.dfs_recursive,
    "dfs_iterative": depthfirst.dfs_iterative,
}
LINK_FNS = {
    "link_from_to": explicit.link_from_to,
    "link_directed": explicit.link_directed,
    "link_undirected": explicit.link_undirected,
}

def exodus_selection(members, op):
    """Which members leave, and in which order (shared with the reference model)."""
    n = len(members)
    pat = op.get("pattern", "even")
    if pat == "even":
        sel = members[0::2]
    elif pat == "odd":
        sel = members[1::2]
    elif pat == "front":
        sel = members[: (n * op.get("pct", 60)) // 100]
    elif pat == "back":
        sel = members[n - (n * op.get("pct", 60)) // 100 :]
    else:  # "thirds": two of every three
        sel = [m for i, m in enumerate(members) if i % 3]
    if op.get("rev"):
        sel = sel[::-1]
    return sel


BAD_VALUES = {
    "int": 5,
    "str": "x",
    "obj": object(),
    "list": [],
}


class Exec:
    """Executes operations against one world."""

    def __init__(self, world=None):
        self.w = world if world is not None else World()
        self.tasks = {}  # task label -> live generator
        self.held = {}  # name -> container kept by the simulated client
        self.shared = {}  # key -> a list object the client passes to several calls

    # -- helpers ----------------------------------------------------------
    def g(self, label):
        """Resolve a label (None stays None)."""
        if label is None:
            return None
        if isinstance(label, dict) and "bad" in label:
            if label["bad"] == "link":
                # any link of the world, used where a vertex is expected
                for lab, k in self.w.kind.items():
                    if k in "em":
                        return self.w.objs[lab]
                return BAD_VALUES["obj"]
            return BAD_VALUES[label["bad"]]
        try:
            return self.w.objs[label]
        except KeyError:
            raise _Missing() from None

    def gs(self, labels):
        return [self.g(x) for x in labels]

    @staticmethod
    def as_kind(seq, kind):
        """The same sequence handed over as another kind of iterable."""
        if kind in (None, "list"):
            return seq
        if kind == "tuple":
            return tuple(seq)
        if kind == "iter":
            return iter(seq)
        if kind == "gen":
            return (x for x in seq)
        if kind == "dictkeys":
            try:
                return dict.fromkeys(seq).keys()
            except TypeError:
                # the harness itself may not hash what is unhashable
                return tuple(seq)
        if kind == "reversed2":
            return reversed(list(reversed(seq)))
        if isinstance(kind, str) and kind.startswith("gen_raises:"):
            # fault in the argument itself: an iterable that fails after k items
            k = int(kind.split(":")[1])

            def failing():
                from egsim.seams import InjectedFault

                for i, x in enumerate(seq):
                    if i >= k:
                        break
                    yield x
                raise InjectedFault("argument iterable failed")

            return failing()
        return seq

    def norm(self, val):
        w = self.w
        if val is None or isinstance(val, (bool, int, float, str)):
            return val
        if kind_of(val) != "o":
            return w.lab(val)
        if isinstance(val, (list, tuple)):
            return [self.norm(x) for x in val]
        if isinstance(val, (set, frozenset)):
            return {"set": sorted(str(self.norm(x)) for x in val)}
        if isinstance(val, type):
            return f"<{val.__name__}>"
        if isinstance(val, collections.abc.Mapping):
            return {str(self.norm(k)): self.norm(v) for k, v in val.items()}
        if hasattr(val, "__next__"):
            return [self.norm(x) for x in val]
        return f"?{type(val).__name__}"

    def apply(self, op):
        fn = getattr(self, "op_" + op["op"], None)
        if fn is None:
            raise egsim.HarnessError(f"unknown op {op['op']}")
        if "new" in op and self.w.has(op["new"]):
            return SKIP
        self.w.ctx = op.get("new") or "x"
        try:
            if op.get("w_error"):
                # process-wide setting seam: this one call runs with the
                # interpreter's warning filter at "error"
                from egsim.seams import WarningsAsErrors

                with WarningsAsErrors(True):
                    return {"ret": self.norm(fn(op))}
            return {"ret": self.norm(fn(op))}
        except _Missing:
            return SKIP
        except Exception as exc:  # pylint: disable=broad-except
            return {"exc": type(exc).__name__}

    # -- process-wide settings ----------------------------------------------
    def op_flag(self, op):
        """The application turns neighbor caching on or off between two calls."""
        from egsim import seams

        seams.set_flag(bool(op["on"]))
        return bool(op["on"])

    # -- constructors -------------------------------------------------------
    def op_mk_vertex(self, op):
        cls = C.VERTEX_CLASSES[op.get("cls", "Vertex")]
        kw = {}
        if op.get("links") is not None:
            kw["links"] = self.as_kind(self.gs(op["links"]), op.get("as"))
        if op.get("universes") is not None:
            kw["universes"] = self.as_kind(self.gs(op["universes"]), op.get("as"))
            if op.get("share") is not None:
                # the very same list object as an earlier call was given
                kw["universes"] = self.shared.setdefault(op["share"], self.gs(op["universes"]))
        attrs = {"sim_tag": op.get("tag", 0)}
        for name, val in (op.get("attrs") or {}).items():
            if isinstance(val, dict) and "$iter" in val:
                # a one-shot iterator kept as an attribute value
                val = iter(list(range(val["$iter"])))
            attrs[name] = val
        v = cls(attributes=attrs, **kw)
        if cls is C.SlottedVertex:
            v.name = op["new"]
            v.rank = op.get("tag", 0)
        if op.get("heir") is not None:
            v.heir = self.g(op["heir"])
        self.w.add(op["new"], v)
        return v

    def op_mk_universe(self, op):
        cls = C.UNIVERSE_CLASSES[op.get("cls", "Universe")]
        kw = {}
        if op.get("vertices") is not None:
            kw["vertices"] = self.as_kind(self.gs(op["vertices"]), op.get("as"))
        if op.get("laws") is not None:
            kw["laws"] = self.g(op["laws"])
        attrs = {"sim_tag": op.get("tag", 0)}
        if op.get("attr_laws") is not None:
            # a law set handed over through the generic attribute dictionary,
            # i.e. assigned to `laws` while the universe is still being built
            attrs["laws"] = self.g(op["attr_laws"])
        u = cls(attributes=attrs, **kw)
        self.w.add(op["new"], u)
        return u

    def op_mk_crowd(self, op):
        """A universe with very many members, built natively in one step."""
        cls = C.UNIVERSE_CLASSES[op.get("cls", "Universe")]
        verts = [Vertex(attributes={"sim_tag": 0}) for _ in range(op["n"])]
        for i, v in enumerate(verts):
            self.w.add(f"{op['new']}.c{i}", v)
        u = cls(attributes={"sim_tag": op.get("tag", 0)}, vertices=verts)
        self.w.add(op["new"], u)
        return u

    def op_exodus(self, op):
        """Many members leave one universe, one call each, in a stated order."""
        u = self.g(op["u"])
        for v in exodus_selection(list(u.vertices), op):
            if op.get("side") == "v":
                v.remove_from_universe(u)
            else:
                u.remove_vertex(v)

    def op_mk_laws(self, op):
        law = UniverseLaws(**dict(op.get("kw") or {}))
        self.w.add(op["new"], law)
        return law

    def op_mk_edge(self, op):
        cls = C.EDGE_CLASSES[op["cls"]]
        a, b = self.g(op["a"]), self.g(op["b"])
        e = cls(a, b)
        self.w.add(op["new"], e)
        return e

    def op_mk_multi(self, op):
        e = C.MultiLink(vertices=self.as_kind(self.gs(op["ends"]), op.get("as")))
        self.w.add(op["new"], e)
        return e

    # -- link side / vertex side mutators ----------------------------------------
    def op_set_end(self, op):
        e, x = self.g(op["e"]), self.g(op["x"])
        if op.get("via") == "item":
            # the keyed spelling every BaseObject offers
            e["v1" if op["which"] == 1 else "v2"] = x
        elif op["which"] == 1:
            e.v1 = x
        else:
            e.v2 = x

    def op_link(self, op):
        a, b = self.g(op["a"]), self.g(op["b"])
        fn = op.get("fn", "link_from_to")
        dd = bool(op.get("dontdup", False))
        if fn == "link_from_to":
            ret = explicit.link_from_to(
                a, C.EDGE_CLASSES[op["cls"]], b, dontdup=dd
            )
        else:
            ret = LINK_FNS[fn](a, b, dontdup=dd)
        if not self.w.known(ret) and kind_of(ret) in "em":
            self.w.add(op["new"], ret)
        return ret

    def op_unlink(self, op):
        a, b = self.g(op["a"]), self.g(op["b"])
        if "destroy" in op:
            return explicit.unlink(a, b, destroy=op["destroy"])
        return explicit.unlink(a, b)

    def op_add_to_link(self, op):
        self.g(op["v"]).add_to_link(self.g(op["e"]))

    def op_remove_from_link(self, op):
        self.g(op["v"]).remove_from_link(self.g(op["e"]))

    def op_add_vertex(self, op):
        self.g(op["e"]).add_vertex(self.g(op["v"]))

    def op_unlink_from(self, op):
        self.g(op["e"]).unlink_from(self.g(op["v"]))

    # -- universes -----------------------------------------------------------------
    def op_uni_add(self, op):
        self.g(op["u"]).add_vertex(self.g(op["v"]))

    def op_uni_remove(self, op):
        self.g(op["u"]).remove_vertex(self.g(op["v"]))

    def op_v_add_uni(self, op):
        self.g(op["v"]).add_to_universe(self.g(op["u"]))

    def op_v_remove_uni(self, op):
        self.g(op["v"]).remove_from_universe(self.g(op["u"]))

    def op_set_laws(self, op):
        self.g(op["u"]).laws = self.g(op["L"])

    def op_set_applies(self, op):
        self.g(op["L"]).applies_to = self.g(op["u"])

    def op_set_rule(self, op):
        setattr(self.g(op["L"]), op["rule"], op["val"])

    # -- builders ------------------------------------------------------------
    def op_adj_dict(self, op):
        adj = {}
        clusters = op.get("clusters") or {}
        for key, vals in op["adj"]:
            if key in clusters:
                # the value is a universe object that is iterable over its members
                adj[self.g(key)] = self.g(clusters[key])
            elif op.get("vals_as") == "ibft" and vals:
                # a lazy adjacency "list": everything reachable from the first
                # listed vertex, found by a traversal that runs WHILE the
                # builder consumes it (and creates links)
                adj[self.g(key)] = breadthfirst.ibft(
                    None, self.g(vals[0]), unknown_handling=helpers.LNK_UNKNOWN_NONNEIGHBOR
                )
            else:
                adj[self.g(key)] = self.as_kind(self.gs(vals), op.get("vals_as") if op.get("vals_as") != "ibft" else None)
        kw = {}
        if op.get("cls") is not None:
            kw["linktype"] = C.EDGE_CLASSES[op["cls"]]
        u = adjlist.load_adj_dict(adj, **kw)
        self.w.add(op["new"], u)
        return u

    def op_adj_matrix(self, op):
        matrix = [[decode_cell(c) for c in row] for row in op["matrix"]]
        verts = self.gs(op["verts"])
        if op.get("rows_as") == "tuple":
            matrix = tuple(tuple(r) for r in matrix)
            verts = tuple(verts)
        kw = {}
        if op.get("cls") is not None:
            kw["linktype"] = C.EDGE_CLASSES[op["cls"]]
        u = adjmatrix.load_adj_matrix(matrix, verts, **kw)
        self.w.add(op["new"], u)
        return u

    # -- reads ------------------------------------------------------------------
    def op_neighbors(self, op):
        kw = {}
        if "dir" in op:
            kw["direction_sensitive"] = DIRS[op["dir"]]
        if "unk" in op:
            kw["unknown_handling"] = UNKS[op["unk"]]
        if op.get("ff") is not None:
            kw["filterfunc"] = C.nb_filter(op["ff"])
        return list(helpers.neighbors(self.g(op["v"]), **kw))

    def op_find_links(self, op):
        kw = {}
        if "ds" in op:
            kw["direction_sensitive"] = bool(op["ds"])
        if "unk" in op:
            kw["unknown_handling"] = UNKS[op["unk"]]
        if op.get("ff") is not None:
            kw["filterfunc"] = C.FL_FILTERS[op["ff"]]
        return set(helpers.find_links(self.g(op["a"]), self.g(op["b"]), **kw))

    def trav_kwargs(self, op):
        kw = {}
        if "dir" in op:
            kw["direction_sensitive"] = DIRS[op["dir"]]
        if "unk" in op:
            kw["unknown_handling"] = UNKS[op["unk"]]
        if op.get("ffv") is not None:
            kw["ff_via"] = C.nb_filter(op["ffv"])
        if op.get("ffr") is not None:
            kw["ff_result"] = C.RESULT_FILTERS[op["ffr"]]
        return kw

    def op_trav(self, op):
        fn = TRAVS[op["fn"]]
        return list(
            fn(self.g(op.get("u")), self.g(op["s"]), **self.trav_kwargs(op))
        )

    def op_search(self, op):
        fn = SEARCHES[op["fn"]]
        return fn(self.g(op.get("u")), self.g(op["s"]), op["attr"], op["val"])

    def op_get(self, op):
        """A public accessor read: links / vertices / universes / laws ..."""
        return getattr(self.g(op["obj"]), op["attr"])

    # -- generator tasks (suspended traversals) -----------------------------------
    def op_spawn(self, op):
        fn = TRAVS[op["fn"]]
        gen = fn(self.g(op.get("u")), self.g(op["s"]), **self.trav_kwargs(op))
        self.tasks[op["t"]] = gen
        return None

    def op_step(self, op):
        """Advance a live generator by up to n items."""
        gen = self.tasks.get(op["t"])
        if gen is None:
            raise _Missing()
        out = []
        try:
            for _ in range(op.get("n", 1)):
                out.append(next(gen))
        except StopIteration:
            del self.tasks[op["t"]]
            return {"items": out, "done": True}
        except Exception:
            self.tasks.pop(op["t"], None)
            raise
        return {"items": out, "done": False}

    def op_abandon(self, op):
        gen = self.tasks.pop(op["t"], None)
        if gen is None:
            raise _Missing()
        gen.close()


CELLS = {
    "0": 0,
    "1": 1,
    "F": False,
    "T": True,
    "2.5": 2.5,
    "x": "x",
    "": "",
    "N": None,
    "[]": (),
    "[0]": (0,),
    "-1": -1,
    # truthy floats that are no ordinary numbers
    "nan": float("nan"),
    "inf": float("inf"),
    "-inf": float("-inf"),
}


def decode_cell(c):
    return CELLS[c]


def cell_truth(c):
    return bool(CELLS[c])
