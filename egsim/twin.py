"""
Twin worlds (DESIGN 4/C05): A is driven under the run's cache-flag schedule, B
under `NEIGHBOR_CACHING = False`, by the same history.  The flag is read only
at call time inside the vertex's cache methods, so B is exactly "the same code
with caching disabled" and is the property's own oracle: no second
implementation of anything is needed.
"""

import collections
import pickle

import egsim  # noqa: F401
from egsim import classes as C
from egsim import gen, ops as O, seams
from egsim.world import World


class TwinState:
    def __init__(self, cfg, exec_cls=O.Exec):
        self.cfg = cfg
        self.exA = exec_cls(World())
        self.exB = exec_cls(World())
        self.flag = False
        self.namer = gen.Namer()
        self.stats = collections.Counter()
        self.snap = {}
        self.view = gen.View({})
        self.pending = None
        self.queue = []
        self.focus = []
        self.mutations = 0
        self.reads = 0
        self.reads_flag_on = 0
        self.mut_while_off = False
        self.mut_since_read = False
        self.tasks = []  # live task labels
        self.restarted = False
        self.stats0 = seams.cache_stats_totals()

    def apply_both(self, op):
        seams.set_flag(self.flag)
        try:
            a = self.exA.apply(op)
        finally:
            seams.set_flag(False)
        b = self.exB.apply(op)
        return a, b

    def refresh(self):
        seams.set_flag(False)
        self.snap = self.exB.w.snapshot()
        self.view = gen.View(self.snap)
        return self.snap

    def snapshot_A(self):
        seams.set_flag(False)
        return self.exA.w.snapshot()

    def cache_delta(self):
        now = seams.cache_stats_totals()
        if now is None or self.stats0 is None:
            return
        names = ["hits", "misses", "invalidations", "insertions"]
        for n, a, b in zip(names, self.stats0, now):
            if b - a:
                self.stats["cache:" + n] += b - a
        self.stats0 = now


# ------------------------------------------------------------------ capsule
def dump_worlds(st, proto):
    """The whole labelled twin world through edgegraph's own pickler."""
    from edgegraph.output import nrpickler

    labels, objs = [], []
    for tag, ex in (("A", st.exA), ("B", st.exB)):
        for lab, obj in ex.w.objs.items():
            labels.append([tag, lab, ex.w.kind[lab]])
            objs.append(obj)
    box = C.WorldBox(labels, objs)
    seams.set_flag(st.flag)
    try:
        return nrpickler.dumps(box, protocol=proto)
    finally:
        seams.set_flag(False)


def load_worlds(st, data, loader):
    if loader == "dill":
        import dill

        box = dill.loads(data)
    else:
        box = pickle.loads(data)
    for (tag, lab, kind), obj in zip(box.labels, box.objs):
        ex = st.exA if tag == "A" else st.exB
        ex.w.add(lab, obj, kind)
