"""
C17 -- semi-singletons: per class, instances correspond one-to-one to argument
keys (DESIGN 4/C17).

The instance map is process-global state on the metaclass, shared by every
class that uses that metaclass object (including subclasses): the "nodes" here
are the classes sharing a registry, and the property is about histories across
them.

Class arrangement per run (fresh classes from factories):
    A   own metaclass           A1(A) subclass of a semi-singleton class
    B,C one shared metaclass object
    D   custom hash function: first positional argument
    E   custom hash function: string of the sorted keyword names
    F   instances that are falsy
    G   metaclass derived from a generated one (mixed with ABCMeta); G1(G); H on
        the generated base metaclass itself
get_all_semi_singleton_instances is also held open as a suspended generator
while other classes are worked with.
Model: per class, key -> instance label, where key equality is Python equality
of (args, json.dumps(kwargs, sort_keys=True)) for the default function and of
the function's value for a custom one.
"""

import abc
import collections
import json

import egsim  # noqa: F401
from egsim import engine, gen
from egsim.props.common import deep_tier
from egsim.seams import InjectedFault
from edgegraph.structure import singleton

CLASS_NAMES = ["A", "A1", "B", "C", "D", "E", "F", "G", "G1", "H", "K", "O", "V"]
# classes whose metaclass is, or derives from, one generated metaclass object
# share that object's registry (keyed by class)
FAMILY = {"A": "a", "A1": "a", "B": "bc", "C": "bc", "D": "d", "E": "e", "F": "f", "G": "g", "G1": "g", "H": "g", "K": "k", "O": "o", "V": "v"}

# argument pool, chosen to collide: -1/-2 (equal hashes, unequal values),
# 1 / 1.0 / True (equal values), tuples built afresh on every use, strings
ARG_POOL = [-1, -2, 0, 1, 1.0, True, "a", "b", ["t", 1], ["t", 2], [], None, 2**61 - 1, 0.5, False, 0.0]
KW_NAMES = ["x", "y", "z", "key", "hashfunc", "instance", "name", "obj", "default", "fallback", "create", "strict"]


# mutable argument objects the simulated caller keeps between calls (per run:
# emptied by St.__init__), so that the SAME list object is passed again after
# having been changed in place
HELD = {}


def decode_arg(a):
    if isinstance(a, dict) and "held" in a:
        obj = HELD.setdefault(a["held"], [])
        obj[:] = [decode_arg(x) for x in a["items"]]
        return obj
    if isinstance(a, dict) and "dict" in a:
        # a dictionary as a keyword VALUE, built in the order given
        return {k: decode_arg(v) for k, v in a["dict"]}
    if isinstance(a, dict) and "unhashable" in a:
        # a legal Python value that cannot be part of a key: the call must
        # fail before anything is constructed or registered
        return [1, 2] if a["unhashable"] == "list" else {3, 4}
    if isinstance(a, list):
        return tuple(decode_arg(x) for x in a)
    return a


def has_unkeyable(op):
    js = json.dumps([op.get("args", []), op.get("kwargs", [])])
    return "unhashable" in js


def hash_first(args, kwargs):
    return args[0] if args else None


def hash_kwnames(args, kwargs):
    return ",".join(sorted(kwargs))


class FieldKey(tuple):
    """
    A custom hash function given as a callable OBJECT: the tuple names the
    keywords that take part in the key besides the first positional argument.
    An empty FieldKey ("first positional argument only") is falsy.
    """

    def __call__(self, args, kwargs):
        return (args[0] if args else None,) + tuple(repr(kwargs.get(name)) for name in self)


def hash_ordered(args, kwargs):
    """A custom hash function for which the order the keywords were written in matters."""
    return (len(args), tuple((k, repr(v)) for k, v in kwargs.items()))


def make_classes(hook=None):
    """
    Fresh classes (and so fresh, empty registries) for one run.  `hook` is a
    one-slot dict: when hook["fn"] is set, every __init__ calls it -- user code
    running in the middle of a construction (it may clear a registry or
    construct something else before the instance being built is registered).
    """
    hook = hook if hook is not None else {"fn": None}

    def body(name, **extra):
        def __init__(self, *args, **kwargs):
            self.init_count = getattr(self, "init_count", 0) + 1
            self.init_args = (args, dict(kwargs))
            # a fresh token per run of __init__: lets the harness recognise an
            # instance it holds no reference to
            hook["n"] = hook.get("n", 0) + 1
            self.token = hook["n"]
            fn = hook["fn"]
            if fn is not None:
                hook["fn"] = None  # one shot
                fn(self)
            if hook.get("raise"):
                hook["raise"] = False
                raise InjectedFault("__init__ failed")

        d = {"__init__": __init__, "__qualname__": name}
        d.update(extra)
        return d

    m_a = singleton.semi_singleton_metaclass()
    m_bc = singleton.semi_singleton_metaclass()
    m_d = singleton.semi_singleton_metaclass(hash_first)
    m_e = singleton.semi_singleton_metaclass(hash_kwnames)
    A = m_a("A", (object,), body("A"))
    A1 = m_a("A1", (A,), body("A1"))
    B = m_bc("B", (object,), body("B"))
    Cc = m_bc("C", (object,), body("C"))
    D = m_d("D", (object,), body("D"))
    E = m_e("E", (object,), body("E"))
    m_f = singleton.semi_singleton_metaclass()
    # instances with their own (false) truth value
    F = m_f("F", (object,), body("F", __bool__=lambda self: False))
    # a metaclass DERIVED from a generated one (mixed with ABCMeta, as a user
    # who also wants abstract methods would write it), a subclass of such a
    # class, and a class that uses the generated base metaclass directly
    m_g = singleton.semi_singleton_metaclass()
    meta_g = type("MetaG", (m_g, abc.ABCMeta), {})
    G = meta_g("G", (object,), body("G"))
    G1 = meta_g("G1", (G,), body("G1"))
    H = m_g("H", (object,), body("H"))
    # a custom hash function that is a falsy callable object
    m_k = singleton.semi_singleton_metaclass(FieldKey())
    K = m_k("K", (object,), body("K"))
    # a custom hash function that is sensitive to the order of the keywords
    m_o = singleton.semi_singleton_metaclass(hash_ordered)
    Oc = m_o("O", (object,), body("O"))
    # instances that all compare equal (value equality, one stable hash)
    m_v = singleton.semi_singleton_metaclass()
    Vc = m_v("V", (object,), body("V", __eq__=lambda self, other: type(other) is type(self), __hash__=lambda self: 7))
    return {"A": A, "A1": A1, "B": B, "C": Cc, "D": D, "E": E, "F": F, "G": G, "G1": G1, "H": H, "K": K, "O": Oc, "V": Vc}


def model_key(cls, args, kwargs):
    if cls == "D":
        return ("first", hash_first(args, kwargs))
    if cls == "E":
        return ("kw", hash_kwnames(args, kwargs))
    if cls == "K":
        return ("first", hash_first(args, kwargs))
    if cls == "O":
        return ("ordered", hash_ordered(args, kwargs))
    return (args, json.dumps(kwargs, sort_keys=True))


class St:
    def __init__(self, cfg):
        self.cfg = cfg
        self.hook = {"fn": None}
        self.classes = make_classes(self.hook)
        self.inst = {}  # instance label -> object (None when the run keeps no references)
        self.label = {}  # id(obj) -> label
        self.token = {}  # instance label -> token
        self.tok2lab = {}
        self.hold = bool(cfg.get("hold_refs", True))
        self.inst_cls = {}  # instance label -> class name it was created by
        self.inits = {}  # instance label -> init_count seen last
        self.model = {c: {} for c in CLASS_NAMES}  # cls -> {key: label}
        self.keyargs = {c: {} for c in CLASS_NAMES}  # cls -> {key: (args, kwargs) spec}
        self.namer = gen.Namer()
        self.stats = collections.Counter()
        self.mutations = 0
        self.gens = {}  # task label -> suspended get_all generator and what it owes
        HELD.clear()

    def lab(self, obj):
        if obj is None:
            return None
        return self.tok2lab.get(getattr(obj, "token", None), f"?{type(obj).__name__}")

    def same(self, obj, lab):
        if obj is None or getattr(obj, "token", None) != self.token.get(lab):
            return False
        return not self.hold or obj is self.inst[lab]

    def register(self, lab, obj, cls):
        self.inst[lab] = obj if self.hold else None
        self.label[id(obj)] = lab
        self.token[lab] = getattr(obj, "token", None)
        self.tok2lab[self.token[lab]] = lab
        self.inst_cls[lab] = cls
        self.inits[lab] = getattr(obj, "init_count", None)

    def known(self, obj):
        lab = self.tok2lab.get(getattr(obj, "token", None))
        return lab


def call_args(op):
    args = tuple(decode_arg(a) for a in op.get("args", []))
    kwargs = {k: decode_arg(v) for k, v in op.get("kwargs", [])}
    return args, kwargs


class C17(engine.Property):
    id = "C17"
    title = "semi-singletons: per class, instances correspond one-to-one to argument keys"
    max_steps = 60
    budget = {
        "quick": {"runs": 100000, "wall_cap_s": 600},
        "thorough": {"runs": 3000000, "wall_cap_s": 5400},
    }
    rule = (
        "one evaluation = one seeded history of constructions, add_mapping, drop, check, "
        "get_all (also as a suspended generator resumed after work on other classes) and clear "
        "over thirteen related classes (own metaclass, subclass, shared metaclass object, two custom "
        "hash functions (one more given as a falsy callable object), falsy instances, a metaclass derived from a generated one with a "
        "subclass and a sibling on the base metaclass) with colliding argument values, "
        "checked against a per-class key->instance model after every step, every live key "
        "of every class re-queried each step; distinct = distinct event-log digest; "
        "non-trivial = at least 3 registry changes"
    )
    assumptions = [
        "single-threaded use",
        "key equality is Python equality of (args, sorted-kwargs JSON) for the default "
        "hash function, and of the function's value for a custom one",
        "whether dropping an absent mapping raises is not specified; it must change nothing",
        "get_all is compared as a set (multiplicity not specified)",
        "histories are sampled, not enumerated",
    ]
    expected_probes = [
        "distinct-values-equal-hash",
        "equal-values-distinct-objects",
        "kwargs-order-permuted",
        "same-arguments-on-two-classes",
        "construct-live-key",
        "subclass-of-semi-singleton-constructed",
        "shared-metaclass-both-classes-used",
        "drop-absent-key",
        "clear-with-other-classes-live",
        "add_mapping-alias",
        "user-code-during-construction:clear",
        "user-code-during-construction:construct",
        "user-code-during-construction:drop",
        "falsy-instance-class-used",
        "unkeyable-arguments",
        "construction-failed-in-init",
        "arguments-shaped-like-another-call's-key",
        "no-reference-held-construct-live-key",
        "keyword-value-equal-but-other-type",
        "dict-valued-keyword-in-other-insertion-order",
        "same-mutable-argument-object-passed-again-after-a-change",
        "falsy-callable-object-as-hash-function",
        "order-sensitive-hash-function-with-several-keywords",
        "value-equal-instances-under-different-keys",
        "derived-metaclass-class-cleared-then-constructed",
        "suspended-get_all-resumed-after-work-on-other-classes",
    ]

    def make_config(self, rng):
        k = rng.randint(2, len(CLASS_NAMES))
        pool = set(rng.sample(range(len(ARG_POOL)), rng.randint(2, 6)))
        r = rng.random()
        if r < 0.3:
            pool |= {0, 1}  # -1 / -2: equal hashes, unequal values
        elif r < 0.45:
            pool |= {2, 12}  # 0 / 2**61-1: equal hashes, unequal values
        elif r < 0.6:
            pool |= {3, 4, 5}  # 1 / 1.0 / True: equal values
        return {
            "steps": gen.geometric_steps(rng, 3, 50, 14) if not (deep_tier() and rng.random() < 0.25) else gen.geometric_steps(rng, 30, 170, 60),
            "deep_bounds": True,
            "classes": sorted(rng.sample(CLASS_NAMES, k)),
            "pool": sorted(pool),
            "p_kwargs": rng.choice([0.0, 0.3, 0.6]),
            "max_args": rng.choice([1, 1, 2, 3]),
            "p_during": rng.choice([0.0, 0.0, 0.15, 0.4]),
            "p_unkeyable": rng.choice([0.0, 0.0, 0.05, 0.1]),
            "p_init_fails": rng.choice([0.0, 0.0, 0.08, 0.2]),
            "p_held": rng.choice([0.0, 0.0, 0.15, 0.3]),
            # does the caller keep the objects it is given?  (a keyed registry
            # used as `Settings("db").values[...] = ...` keeps none)
            "hold_refs": rng.random() < 0.65,
            "weights": gen.swarm_weights(
                rng,
                ["construct", "add_mapping", "drop", "check", "get_all", "clear", "gen_open", "gen_step"],
                always=("construct",),
            ),
        }

    def start(self, cfg):
        return St(cfg)

    # -- generation ---------------------------------------------------------------------
    def _args(self, rng, cfg, st, cls, allow_bad=True):
        # prefer keys already live somewhere (possibly on another class)
        live = []
        for c in cfg["classes"]:
            live.extend(st.keyargs[c].values())
        with_kw = [x for x in live if x[1]]
        if with_kw and cls not in ("D", "E", "K", "O") and rng.random() < 0.06:
            # positional arguments shaped like the key of another call:
            # (its positionals, the canonical text of its keywords)
            a, kw = rng.choice(with_kw)
            text = json.dumps({k: decode_arg(v) for k, v in kw}, sort_keys=True)
            st.stats["probe:arguments-shaped-like-another-call's-key"] += 1
            return [list(a), text], []
        with_dict = [x for x in with_kw if any(isinstance(v, dict) and "dict" in v for _, v in x[1])]
        if with_dict and rng.random() < 0.5:
            # the same call with a dictionary-valued keyword filled in another order
            a, kw = rng.choice(with_dict)
            kw = [list(x) for x in kw]
            for item in kw:
                if isinstance(item[1], dict) and "dict" in item[1]:
                    entries = [list(e) for e in item[1]["dict"]]
                    rng.shuffle(entries)
                    item[1] = {"dict": entries}
            st.stats["probe:dict-valued-keyword-in-other-insertion-order"] += 1
            return list(a), kw
        if with_kw and rng.random() < 0.12:
            # the same call with one keyword value swapped for an EQUAL value of
            # another type (1 / True / 1.0, 0 / False / 0.0 / -0.0): equal, but
            # their JSON texts differ, so these are different keys
            a, kw = rng.choice(with_kw)
            kw = [list(x) for x in kw]
            i = rng.randrange(len(kw))
            twins = {1: [True, 1.0], True: [1, 1.0], 1.0: [1, True], 0: [False, 0.0, -0.0], False: [0, 0.0], 0.0: [0, -0.0, False]}
            v = kw[i][1]
            if isinstance(v, (bool, int, float)) and v in twins:
                kw[i][1] = rng.choice(twins[v])
                st.stats["probe:keyword-value-equal-but-other-type"] += 1
                return list(a), kw
        if live and rng.random() < 0.45:
            args, kwargs = rng.choice(live)
            args = list(args)
            kwargs = [list(kv) for kv in kwargs]
            if kwargs and rng.random() < 0.5:
                rng.shuffle(kwargs)
                st.stats["probe:kwargs-order-permuted"] += 1
            return args, kwargs
        n = rng.randint(0, cfg["max_args"])
        args = [ARG_POOL[rng.choice(cfg["pool"])] for _ in range(n)]
        if allow_bad and cls not in ("D", "E", "K", "O") and rng.random() < cfg.get("p_unkeyable", 0.0):
            bad = {"unhashable": rng.choice(["list", "set"])}
            if rng.random() < 0.6 or cls in ("D", "E", "K", "O"):
                args = args + [bad]
            else:
                return args, [["x", {"unhashable": "set"}]]
        kwargs = []
        if allow_bad and cls not in ("D", "E", "K", "O") and rng.random() < cfg.get("p_held", 0.0):
            # a list the caller keeps, edits in place and passes again
            st.stats["probe:same-mutable-argument-object-passed-again-after-a-change"] += 1
            items = [rng.randrange(3) for _ in range(rng.randint(0, 2))]
            return args[:1], [["opts", {"held": rng.choice(["h0", "h0", "h1"]), "items": items}]]
        if rng.random() < cfg["p_kwargs"]:
            names = rng.sample(KW_NAMES, rng.randint(1, 3))
            kwargs = [[nm, ARG_POOL[rng.choice(cfg["pool"])]] for nm in names]
            if cls not in ("D", "E", "K", "O") and rng.random() < 0.2:
                entries = [[k, rng.choice([1, 2, "v"])] for k in rng.sample(["CC", "LD", "AR", "x"], rng.randint(2, 3))]
                kwargs[0][1] = {"dict": entries}
        return args, kwargs

    def _during(self, rng, cfg, st, outer):
        """Something the outer __init__ does before its instance is registered."""
        r = rng.random()
        cls = rng.choice(cfg["classes"])
        if r < 0.45:
            return {"op": "clear", "cls": rng.choice([outer["cls"], cls])}
        if r < 0.6:
            args, kwargs = self._args(rng, cfg, st, cls, allow_bad=False)
            return {"op": "drop", "cls": cls, "args": args, "kwargs": kwargs}
        args, kwargs = self._args(rng, cfg, st, cls, allow_bad=False)
        return {"op": "construct", "cls": cls, "args": args, "kwargs": kwargs, "new": st.namer.new("i")}

    def next_op(self, rng, cfg, st):
        for _ in range(20):
            kind = gen.weighted_choice(rng, cfg["weights"])
            cls = rng.choice(cfg["classes"])
            if kind in ("construct", "check", "drop"):
                args, kwargs = self._args(rng, cfg, st, cls)
                op = {"op": kind, "cls": cls, "args": args, "kwargs": kwargs}
                if kind == "construct":
                    op["new"] = st.namer.new("i")
                    if "held" in json.dumps(kwargs):
                        # (no user code inside this construction: the harness
                        # would be the one to change the held list in mid-call)
                        pass
                    elif rng.random() < cfg.get("p_during", 0.0):
                        op["during"] = self._during(rng, cfg, st, op)
                    elif rng.random() < cfg.get("p_init_fails", 0.0):
                        op["init_fails"] = True
                return op
            if kind == "add_mapping" and st.inst and st.hold:
                obj = rng.choice(sorted(st.inst))
                args, kwargs = self._args(rng, cfg, st, st.inst_cls[obj])
                kwargs = [kv for kv in kwargs if kv[0] != "obj"]  # add_mapping(obj, ...) owns that name
                return {"op": "add_mapping", "obj": obj, "args": args, "kwargs": kwargs}
            if kind in ("get_all", "clear"):
                return {"op": kind, "cls": cls}
            if kind == "gen_open" and len(st.gens) < 3:
                return {"op": "gen_open", "cls": cls, "t": st.namer.new("t")}
            if kind == "gen_step" and st.gens:
                return {"op": "gen_step", "t": rng.choice(sorted(st.gens)), "n": rng.choice([1, 1, 2, 99])}
        return None

    # -- execution -------------------------------------------------------------------------
    def _touch(self, st, cls):
        for g in st.gens.values():
            if FAMILY[g["cls"]] == FAMILY[cls]:
                g["touched"] = True

    def _gen_op(self, st, op):
        """
        get_all_semi_singleton_instances is a lazy generator: a caller may be
        half-way through one class's instances while it works with another
        class.  As long as nothing was done to a class of the same registry
        since it was opened, it must run to its end without an exception and
        report exactly the instances that class has.
        """
        s = st.stats
        if op["op"] == "gen_open":
            if op["cls"] not in st.classes or op["t"] in st.gens:
                return None, None
            s["op:gen_open"] += 1
            s["fault:task-spawned"] += 1
            it = singleton.get_all_semi_singleton_instances(st.classes[op["cls"]])
            st.gens[op["t"]] = {
                "cls": op["cls"],
                "it": it,
                "want": sorted(set(st.model[op["cls"]].values())),
                "got": [],
                "touched": False,
            }
            return {"ret": "opened"}, None
        g = st.gens.get(op["t"])
        if g is None:
            return None, None
        s["op:gen_step"] += 1
        s["fault:task-step"] += 1
        if not g["touched"]:
            s["probe:suspended-get_all-resumed-after-work-on-other-classes"] += 1
        done = False
        out = None
        for _ in range(op.get("n", 1)):
            try:
                g["got"].append(st.lab(next(g["it"])))
            except StopIteration:
                done = True
                break
            except Exception as exc:  # pylint: disable=broad-except
                del st.gens[op["t"]]
                if g["touched"]:
                    return {"exc": type(exc).__name__, "touched": True}, None
                return {"exc": type(exc).__name__}, engine.viol(
                    "C17/suspended-get_all-disturbed-by-another-registry",
                    {"op": op, "class": g["cls"], "exc": type(exc).__name__, "got_so_far": g["got"]},
                )
        out = {"ret": list(g["got"]), "done": done, "touched": g["touched"]}
        if done:
            del st.gens[op["t"]]
            if not g["touched"] and sorted(set(g["got"])) != g["want"]:
                return out, engine.viol(
                    "C17/suspended-get_all-reported-other-than-the-live-mappings",
                    {"op": op, "class": g["cls"], "expected": g["want"], "got": sorted(set(g["got"]))},
                )
        return out, None

    def execute(self, st, op):
        k = op["op"]
        s = st.stats
        if k in ("gen_open", "gen_step"):
            return self._gen_op(st, op)
        if k in ("construct", "drop", "clear") and op["cls"] in FAMILY:
            self._touch(st, op["cls"])
            if op.get("during") and op["during"]["cls"] in FAMILY:
                self._touch(st, op["during"]["cls"])
        if k == "add_mapping" and op["obj"] in st.inst_cls:
            self._touch(st, st.inst_cls[op["obj"]])
        if k == "add_mapping":
            if op["obj"] not in st.inst or st.inst[op["obj"]] is None:
                return None, None
            cls = st.inst_cls[op["obj"]]
        else:
            cls = op["cls"]
        if cls not in st.classes:
            return None, None
        if k == "construct" and op["new"] in st.inst:
            return None, None
        klass = st.classes[cls]
        args, kwargs = call_args(op) if k in ("construct", "check", "drop", "add_mapping") else ((), {})
        key = None
        if k in ("construct", "check", "drop", "add_mapping") and not has_unkeyable(op):
            key = model_key(cls, args, kwargs)
        s["op:" + k] += 1
        out = {}
        v = None
        if k in ("construct", "check", "drop", "add_mapping") and has_unkeyable(op):
            return self._unkeyable(st, op, k, klass, args, kwargs)
        try:
            hash(key)
        except TypeError:
            return None, None

        if k == "construct":
            self._probes_construct(st, cls, args, kwargs, key)
            live = st.model[cls].get(key)
            during = op.get("during")
            if during is not None and live is None:
                dk = None
                if during["op"] in ("construct", "drop"):
                    dargs, dkwargs = call_args(during)
                    dk = model_key(during["cls"], dargs, dkwargs)
                same_key = during["op"] == "construct" and (during["cls"], dk) == (cls, key)
                if during["cls"] in st.classes and not same_key:
                    s["probe:user-code-during-construction:" + during["op"]] += 1
                    s["fault:reentrant-call-during-init"] += 1
                    st.hook["fn"] = lambda _self, d=during: self._nested(st, d)
            if op.get("init_fails") and live is None:
                # the user's __init__ raises: a construction that fails half-way
                # must leave no mapping behind, and the next attempt constructs
                s["fault:init-raises"] += 1
                s["probe:construction-failed-in-init"] += 1
                st.hook["raise"] = True
                try:
                    klass(*args, **kwargs)
                    out = {"ret": "returned"}
                except InjectedFault:
                    out = {"exc": "InjectedFault"}
                except Exception as exc:  # pylint: disable=broad-except
                    out = {"exc": type(exc).__name__}
                st.hook["raise"] = False
                if "exc" not in out:
                    return out, engine.viol("C17/failed-init-swallowed", {"op": op})
                return out, self._requery_absent(st, op, cls, klass, args, kwargs) or self._requery(st, op)
            try:
                obj = klass(*args, **kwargs)
            except Exception as exc:  # pylint: disable=broad-except
                st.hook["fn"] = None
                return {"exc": type(exc).__name__}, engine.viol(
                    "C17/construction-raised", {"op": op, "exc": type(exc).__name__}
                )
            if live is not None:
                s["probe:construct-live-key"] += 1
                if not st.hold:
                    s["probe:no-reference-held-construct-live-key"] += 1
                out = {"ret": st.lab(obj)}
                if not st.same(obj, live):
                    v = engine.viol(
                        "C17/live-key-returned-other-object",
                        {"op": op, "expected": live, "got": st.lab(obj)},
                    )
                elif getattr(obj, "init_count", None) != st.inits[live]:
                    v = engine.viol(
                        "C17/init-ran-again-for-live-key",
                        {"op": op, "instance": live, "init_count": getattr(obj, "init_count", None)},
                    )
            else:
                known = st.known(obj)
                if known is not None:
                    out = {"ret": known}
                    kind = "C17/new-key-returned-existing-instance"
                    if type(obj) is not klass:
                        kind = "C17/returned-instance-of-another-class"
                    v = engine.viol(
                        kind,
                        {
                            "op": op,
                            "got": known,
                            "got_class": st.inst_cls[known],
                            "live_keys_of_class": len(st.model[cls]),
                        },
                    )
                else:
                    lab = op["new"]
                    st.register(lab, obj, cls)
                    st.model[cls][key] = lab
                    st.keyargs[cls][key] = (op["args"], op["kwargs"])
                    st.mutations += 1
                    out = {"ret": lab}
                    if type(obj) is not klass:
                        v = engine.viol(
                            "C17/returned-instance-of-another-class",
                            {"op": op, "type": type(obj).__name__},
                        )
                    elif st.inits[lab] != 1:
                        v = engine.viol(
                            "C17/init-count-not-one-for-new-instance",
                            {"op": op, "init_count": st.inits[lab]},
                        )
        elif k == "add_mapping":
            obj = st.inst[op["obj"]]
            if key in st.model[cls] and st.model[cls][key] != op["obj"]:
                s["probe:add_mapping-overwrites"] += 1
            s["probe:add_mapping-alias"] += 1
            try:
                singleton.add_mapping(obj, *args, **kwargs)
                out = {"ret": None}
            except Exception as exc:  # pylint: disable=broad-except
                return {"exc": type(exc).__name__}, engine.viol(
                    "C17/add_mapping-raised", {"op": op, "exc": type(exc).__name__}
                )
            st.model[cls][key] = op["obj"]
            st.keyargs[cls][key] = (op["args"], op["kwargs"])
            st.mutations += 1
        elif k == "drop":
            present = key in st.model[cls]
            if not present:
                s["probe:drop-absent-key"] += 1
                s["fault:failing-call"] += 1
            try:
                singleton.drop_semi_singleton_mapping(klass, *args, **kwargs)
                out = {"ret": None}
            except Exception as exc:  # pylint: disable=broad-except
                out = {"exc": type(exc).__name__}
                if present:
                    v = engine.viol(
                        "C17/drop-of-live-key-raised", {"op": op, "exc": out["exc"]}
                    )
            if present:
                del st.model[cls][key]
                del st.keyargs[cls][key]
                st.mutations += 1
        elif k == "check":
            try:
                got = singleton.check_semi_singleton_entry_exists(klass, *args, **kwargs)
            except Exception as exc:  # pylint: disable=broad-except
                return {"exc": type(exc).__name__}, engine.viol(
                    "C17/check-raised", {"op": op, "exc": type(exc).__name__}
                )
            out = {"ret": st.lab(got)}
            exp = st.model[cls].get(key)
            if (got is None) != (exp is None) or (exp is not None and not st.same(got, exp)):
                v = engine.viol(
                    "C17/check-reports-wrong-entry",
                    {"op": op, "expected": exp, "got": st.lab(got)},
                )
        elif k == "get_all":
            try:
                got = list(singleton.get_all_semi_singleton_instances(klass))
            except Exception as exc:  # pylint: disable=broad-except
                return {"exc": type(exc).__name__}, engine.viol(
                    "C17/get_all-raised", {"op": op, "exc": type(exc).__name__}
                )
            gl = sorted({st.lab(o) for o in got})
            out = {"ret": gl}
            exp = sorted(set(st.model[cls].values()))
            if gl != exp:
                v = engine.viol(
                    "C17/get_all-differs-from-live-mappings",
                    {"op": op, "expected": exp, "got": gl},
                )
        elif k == "clear":
            if any(st.model[c] for c in st.cfg["classes"] if c != cls):
                s["probe:clear-with-other-classes-live"] += 1
            if cls in ("G", "G1"):
                st.derived_cleared = True
            try:
                singleton.clear_semi_singleton(klass)
                out = {"ret": None}
            except Exception as exc:  # pylint: disable=broad-except
                return {"exc": type(exc).__name__}, engine.viol(
                    "C17/clear-raised", {"op": op, "exc": type(exc).__name__}
                )
            if st.model[cls]:
                st.mutations += 1
            st.model[cls] = {}
            st.keyargs[cls] = {}
        if v is None:
            v = self._requery(st, op)
        return out, v

    def _unkeyable(self, st, op, k, klass, args, kwargs):
        """
        Arguments from which no key can be made (an unhashable positional, a
        keyword value JSON cannot encode): the call fails -- and must leave
        every registry as it was, without constructing anything.
        """
        s = st.stats
        s["fault:failing-call"] += 1
        s["probe:unkeyable-arguments"] += 1
        before = sum(getattr(o, "init_count", 0) for o in st.inst.values() if o is not None)
        n_before = {c: len(list(singleton.get_all_semi_singleton_instances(st.classes[c]))) for c in st.cfg["classes"]}
        try:
            if k == "construct":
                klass(*args, **kwargs)
            elif k == "check":
                singleton.check_semi_singleton_entry_exists(klass, *args, **kwargs)
            elif k == "drop":
                singleton.drop_semi_singleton_mapping(klass, *args, **kwargs)
            else:
                singleton.add_mapping(st.inst[op["obj"]], *args, **kwargs)
            out = {"ret": "returned"}
        except Exception as exc:  # pylint: disable=broad-except
            out = {"exc": type(exc).__name__}
        n_after = {c: len(list(singleton.get_all_semi_singleton_instances(st.classes[c]))) for c in st.cfg["classes"]}
        if n_after != n_before:
            return out, engine.viol(
                "C17/failed-call-changed-a-registry", {"op": op, "before": n_before, "after": n_after}
            )
        if sum(getattr(o, "init_count", 0) for o in st.inst.values() if o is not None) != before:
            return out, engine.viol("C17/failed-call-ran-init-of-live-instance", {"op": op})
        return out, self._requery(st, op)

    def _nested(self, st, d):
        """Runs inside an __init__: a registry operation, mirrored in the model."""
        klass = st.classes[d["cls"]]
        if d["op"] == "clear":
            singleton.clear_semi_singleton(klass)
            st.model[d["cls"]] = {}
            st.keyargs[d["cls"]] = {}
            return
        args, kwargs = call_args(d)
        key = model_key(d["cls"], args, kwargs)
        if d["op"] == "drop":
            try:
                singleton.drop_semi_singleton_mapping(klass, *args, **kwargs)
            except Exception:  # pylint: disable=broad-except
                pass
            if key in st.model[d["cls"]]:
                del st.model[d["cls"]][key]
                del st.keyargs[d["cls"]][key]
            return
        live = st.model[d["cls"]].get(key)
        obj = klass(*args, **kwargs)
        if live is None and d["new"] not in st.inst and st.known(obj) is None:
            lab = d["new"]
            st.register(lab, obj, d["cls"])
            st.model[d["cls"]][key] = lab
            st.keyargs[d["cls"]][key] = (d["args"], d["kwargs"])

    def _probes_construct(self, st, cls, args, kwargs, key):
        s = st.stats
        if cls in ("A1", "G1"):
            s["probe:subclass-of-semi-singleton-constructed"] += 1
        if cls in ("G", "G1") and getattr(st, "derived_cleared", False):
            s["probe:derived-metaclass-class-cleared-then-constructed"] += 1
        if cls == "F":
            s["probe:falsy-instance-class-used"] += 1
        if cls == "K":
            s["probe:falsy-callable-object-as-hash-function"] += 1
        if cls == "O" and len(kwargs) >= 2:
            s["probe:order-sensitive-hash-function-with-several-keywords"] += 1
        if cls == "V" and st.model["V"]:
            s["probe:value-equal-instances-under-different-keys"] += 1
        if cls in ("B", "C") and st.model["B" if cls == "C" else "C"]:
            s["probe:shared-metaclass-both-classes-used"] += 1
        for c in st.cfg["classes"]:
            if c != cls and key in st.model[c]:
                s["probe:same-arguments-on-two-classes"] += 1
                break
        if cls not in ("D", "E", "K", "O"):
            try:
                hk = hash(key)
            except TypeError:
                return
            for other in st.model[cls]:
                if other != key and hash(other) == hk:
                    s["probe:distinct-values-equal-hash"] += 1
                    break
            if key in st.model[cls]:
                for other in st.model[cls]:
                    if other == key and other[0] is not key[0]:
                        s["probe:equal-values-distinct-objects"] += 1
                        break

    def _requery_absent(self, st, op, cls, klass, args, kwargs):
        """After a failed construction the key must not be mapped."""
        try:
            got = singleton.check_semi_singleton_entry_exists(klass, *args, **kwargs)
            listed = list(singleton.get_all_semi_singleton_instances(klass))
        except Exception as exc:  # pylint: disable=broad-except
            return engine.viol("C17/requery-raised", {"after": op, "exc": type(exc).__name__})
        if got is not None:
            return engine.viol(
                "C17/failed-construction-left-a-mapping", {"op": op, "got": st.lab(got)}
            )
        want = sorted(set(st.model[cls].values()))
        if sorted({st.lab(o) for o in listed}) != want:
            return engine.viol(
                "C17/failed-construction-left-an-instance-listed",
                {"op": op, "expected": want, "got": sorted({st.lab(o) for o in listed})},
            )
        return None

    def _requery(self, st, op):
        """No operation on one class changes any class's model-predicted answers."""
        for c in st.cfg["classes"]:
            klass = st.classes[c]
            for key, lab in st.model[c].items():
                spec_args, spec_kwargs = st.keyargs[c][key]
                args = tuple(decode_arg(a) for a in spec_args)
                kwargs = {k: decode_arg(v) for k, v in spec_kwargs}
                try:
                    got = singleton.check_semi_singleton_entry_exists(klass, *args, **kwargs)
                except Exception as exc:  # pylint: disable=broad-except
                    return engine.viol(
                        "C17/requery-raised", {"class": c, "exc": type(exc).__name__, "after": op}
                    )
                if not st.same(got, lab):
                    kind = "C17/isolation:other-class-answer-changed"
                    if op.get("cls", None) == c or (
                        op["op"] == "add_mapping" and st.inst_cls.get(op["obj"]) == c
                    ):
                        kind = "C17/live-key-lost-or-remapped"
                    return engine.viol(
                        kind,
                        {
                            "class": c,
                            "args": spec_args,
                            "kwargs": spec_kwargs,
                            "expected": lab,
                            "got": st.lab(got),
                            "after": op,
                        },
                    )
        return None

    def state_hash(self, st):
        canon = {
            c: sorted((repr(k), v) for k, v in st.model[c].items()) for c in CLASS_NAMES
        }
        return engine.h64(engine.jdump(canon))

    def nontrivial(self, st):
        return st.mutations >= 3


PROPERTY = C17()
