"""
C12 -- containers handed out or taken in are snapshots; mutating them changes
nothing (DESIGN 4/C12).

An injected corruption followed by continued operation: a misbehaving client
scribbles on containers it was handed (accessor and query results) or handed
in (constructor / builder arguments) at scheduled points of a C05-style
history, with the cache flag off, on or toggling.  Twin worlds: A meets the
misbehaving client, B (caching off) gets the same history without the
scribbles.  After each scribble and after every later step: extended snapshots
equal, the same read re-issued gives the same answer on both, every read of the
continuing history agrees.  On an immutable container the attempt must raise,
and that is the end of it.
"""

import json
import collections
import re
import types

import egsim  # noqa: F401
from egsim import classes as C
from egsim import engine, gen, ops as O, seams, twin
from egsim.props import common, c05, c19
from egsim.world import public_attrs, kind_of
from edgegraph.output import nrpickler

LIST_MUTS = ["append", "insert", "remove_first", "clear", "sort", "reverse", "setitem", "delitem", "pop", "extend", "imul"]
SET_MUTS = ["add", "discard_one", "clear", "pop"]
DICT_MUTS = ["setitem", "pop_one", "clear", "update", "inner_setitem", "inner_clear"]
# ... and, for what an accessor handed out, operators through which a read-only
# wrapper passes the mapping it wraps to the other operand
PROXY_MUTS = DICT_MUTS + ["reflected_eq", "reflected_or", "inner_reflected_eq", "inner_reflected_or"]


class Grabber:
    """
    An operand whose reflected comparison / merge methods write into whatever
    mapping they are handed (a read-only proxy hands over the dict it wraps).
    """

    __hash__ = None

    def __init__(self, junk):
        self.junk = junk
        self.grabbed = 0

    def _grab(self, other):
        if isinstance(other, dict):
            self.grabbed += 1
            inner = next((v for v in other.values() if isinstance(v, dict)), None)
            if inner is not None:
                inner[C.SubVertex] = C.SubDirected
            else:
                other[C.SubVertex] = C.SubDirected

    def __eq__(self, other):
        self._grab(other)
        return False

    def __ror__(self, other):
        self._grab(other)
        return {}

ACCESSORS = [
    ("links", "vu"),
    ("universes", "vuem"),
    ("vertices", "uem"),
    ("edge_whitelist", "L"),
]


def scribble(container, mut, junk):
    """
    Apply one seeded mutation.  -> "mutated" | "immutable" | "noop"
    `junk` is the object inserted where one is needed.
    """
    m = mut["m"]
    try:
        if isinstance(container, list):
            if m == "append":
                container.append(junk)
            elif m == "insert":
                container.insert(0, junk)
            elif m == "remove_first":
                if not container:
                    return "noop"
                del container[0]
            elif m == "clear":
                if not container:
                    return "noop"
                container.clear()
            elif m == "sort":
                if len(container) < 2:
                    return "noop"
                container.sort(key=id, reverse=bool(mut.get("rev")))
            elif m == "reverse":
                if len(container) < 2 or container == container[::-1]:
                    return "noop"
                container.reverse()
            elif m == "setitem":
                if not container:
                    return "noop"
                container[mut.get("i", 0) % len(container)] = junk
            elif m == "delitem":
                if not container:
                    return "noop"
                del container[mut.get("i", 0) % len(container)]
            elif m == "pop":
                if not container:
                    return "noop"
                container.pop()
            elif m == "extend":
                container.extend([junk, junk])
            elif m == "imul":
                if not container:
                    return "noop"
                container *= 2
            else:
                container.append(junk)
            return "mutated"
        if isinstance(container, set):
            if m in ("add", "append", "insert", "extend", "setitem"):
                container.add(junk)
            elif m in ("clear",):
                if not container:
                    return "noop"
                container.clear()
            else:
                if not container:
                    return "noop"
                container.pop()
            return "mutated"
        if isinstance(container, dict):
            if m in ("clear",):
                if not container:
                    return "noop"
                container.clear()
            elif m in ("pop_one", "pop", "delitem", "remove_first"):
                if not container:
                    return "noop"
                del container[next(iter(container))]
            elif m in ("inner_setitem", "inner_clear"):
                inner = next((v for v in container.values() if isinstance(v, (dict, list))), None)
                if inner is None:
                    container["scribbled"] = junk
                elif isinstance(inner, dict):
                    if m == "inner_clear" and inner:
                        inner.clear()
                    else:
                        inner[C.SubVertex] = C.SubDirected
                else:
                    if m == "inner_clear" and inner:
                        inner.clear()
                    else:
                        inner.append(junk)
            else:
                container["scribbled"] = junk
            return "mutated"
        # tuples, mapping proxies, frozensets, anything else: try the obvious ways
        if isinstance(container, tuple):
            if m in ("append", "insert", "extend", "clear", "sort", "reverse", "pop"):
                getattr(container, {"insert": "insert"}.get(m, m))  # AttributeError
            container[0] = junk  # TypeError
            return "mutated"
        if isinstance(container, types.MappingProxyType) and "reflected" in m:
            target = container
            if m.startswith("inner_"):
                target = next(iter(container.values()), None)
                if target is None:
                    return "noop"
            g = Grabber(junk)
            if m.endswith("_eq"):
                target == g  # pylint: disable=pointless-statement,expression-not-assigned
            else:
                target | g  # pylint: disable=pointless-statement,expression-not-assigned
            return "mutated" if g.grabbed else "immutable"
        if isinstance(container, types.MappingProxyType):
            if m in ("inner_setitem", "inner_clear") and len(container):
                inner = next(iter(container.values()))
                if m == "inner_clear":
                    inner.clear()
                else:
                    inner[C.SubVertex] = C.SubDirected
            elif m == "clear":
                container.clear()
            elif m in ("pop_one", "pop"):
                container.pop(next(iter(container), None))
            else:
                container["scribbled"] = junk
            return "mutated"
        if container is None:
            return "noop"
        container.append(junk)
        return "mutated"
    except (TypeError, AttributeError):
        return "immutable"


class ScribbleExec(O.Exec):
    """Exec that keeps hold of the containers it exchanges, like a client would."""

    def __init__(self, world=None, misbehave=False):
        super().__init__(world)
        self.misbehave = misbehave
        self.last_scribble = None

    def junk(self, mut):
        x = mut.get("x")
        if x is not None and x in self.w.objs:
            return self.w.objs[x]
        return "junk"

    def _after(self, op, containers):
        """Scribble on a handed-in container after the call has returned."""
        self.last_scribble = None
        sc = op.get("scribble")
        if not sc or not self.misbehave:
            return
        target = containers.get(sc["arg"])
        if target is None:
            self.last_scribble = "noop"
            return
        self.last_scribble = scribble(target, sc["mut"], self.junk(sc["mut"]))

    # -- constructors / builders, keeping the argument containers ----------------------
    def op_mk_vertex(self, op):
        cls = C.VERTEX_CLASSES[op.get("cls", "Vertex")]
        kw = {}
        held = {}
        if op.get("links") is not None:
            held["links"] = kw["links"] = self.gs(op["links"])
        if op.get("universes") is not None:
            held["universes"] = kw["universes"] = self.gs(op["universes"])
        attrs = {"sim_tag": op.get("tag", 0)}
        attrs.update(op.get("attrs") or {})
        held["attributes"] = attrs
        v = cls(attributes=attrs, **kw)
        self.w.add(op["new"], v)
        self._after(op, held)
        return v

    def op_mk_universe(self, op):
        cls = C.UNIVERSE_CLASSES[op.get("cls", "Universe")]
        kw = {}
        held = {}
        if op.get("vertices") is not None:
            seq = self.gs(op["vertices"])
            if op.get("as_set"):
                seq = set(seq)
            held["vertices"] = kw["vertices"] = seq
            if str(op.get("as", "")).startswith("gen_raises"):
                kw["vertices"] = self.as_kind(seq, op["as"])
        attrs = {"sim_tag": op.get("tag", 0)}
        held["attributes"] = attrs
        u = cls(attributes=attrs, **kw)
        self.w.add(op["new"], u)
        self._after(op, held)
        return u

    def op_mk_laws(self, op):
        from edgegraph.structure.universe import UniverseLaws

        kw = dict(op.get("kw") or {})
        held = {}
        if "wl" in op:
            held["edge_whitelist"] = kw["edge_whitelist"] = c19.decode_whitelist(op["wl"])
            if op.get("wl_as") == "proxy":
                # a read-only VIEW of the dict the caller still owns
                kw["edge_whitelist"] = types.MappingProxyType(held["edge_whitelist"])
            elif op.get("wl_as") == "proxy2":
                held["inner"] = dict(held["edge_whitelist"])
                kw["edge_whitelist"] = types.MappingProxyType(
                    {k: types.MappingProxyType(v) for k, v in held["inner"].items()}
                )
                held["edge_whitelist"] = held["inner"]
            elif op.get("wl_as") == "chainmap":
                # per-type rule sets layered over one table of defaults the
                # caller keeps (and goes on editing)
                defaults = {}
                for inner in held["edge_whitelist"].values():
                    defaults.update(inner)
                kw["edge_whitelist"] = {
                    k: collections.ChainMap({}, defaults) for k in held["edge_whitelist"]
                }
                held["edge_whitelist"] = defaults
        law = UniverseLaws(**kw)
        self.w.add(op["new"], law)
        self._after(op, held)
        return law

    def op_mk_multi(self, op):
        ends = self.gs(op["ends"])
        e = C.MultiLink(vertices=ends)
        self.w.add(op["new"], e)
        self._after(op, {"ends": ends})
        return e

    def op_adj_dict(self, op):
        from edgegraph.builder import adjlist

        adj = {}
        for key, vals in op["adj"]:
            adj[self.g(key)] = self.gs(vals)
        kw = {}
        if op.get("cls") is not None:
            kw["linktype"] = C.EDGE_CLASSES[op["cls"]]
        u = adjlist.load_adj_dict(adj, **kw)
        self.w.add(op["new"], u)
        self._after(op, {"adjdict": adj})
        return u

    def op_adj_matrix(self, op):
        from edgegraph.builder import adjmatrix

        matrix = [[O.decode_cell(c) for c in row] for row in op["matrix"]]
        verts = self.gs(op["verts"])
        kw = {}
        if op.get("cls") is not None:
            kw["linktype"] = C.EDGE_CLASSES[op["cls"]]
        u = adjmatrix.load_adj_matrix(matrix, verts, **kw)
        self.w.add(op["new"], u)
        self._after(op, {"matrix": matrix, "vertices": verts, "row": matrix[0] if matrix else None})
        return u

    # -- returned containers ----------------------------------------------------------
    def raw(self, src):
        """The raw object a read hands out (not normalised)."""
        from edgegraph.traversal import helpers

        k = src["op"]
        if k == "get":
            return getattr(self.g(src["obj"]), src["attr"])
        if k == "neighbors":
            kw = {}
            if "dir" in src:
                kw["direction_sensitive"] = O.DIRS[src["dir"]]
            if "unk" in src:
                kw["unknown_handling"] = O.UNKS[src["unk"]]
            if src.get("ff") is not None:
                kw["filterfunc"] = C.nb_filter(src["ff"])
            return helpers.neighbors(self.g(src["v"]), **kw)
        if k == "find_links":
            kw = {}
            if "ds" in src:
                kw["direction_sensitive"] = bool(src["ds"])
            if "unk" in src:
                kw["unknown_handling"] = O.UNKS[src["unk"]]
            return helpers.find_links(self.g(src["a"]), self.g(src["b"]), **kw)
        if k == "trav":
            fn = O.TRAVS[src["fn"]]
            return fn(self.g(src.get("u")), self.g(src["s"]), **self.trav_kwargs(src))
        raise egsim.HarnessError(f"no raw read for {k}")

    def op_scribble_ret(self, op):
        """Read, then (the misbehaving client only) scribble on what came back."""
        got = self.raw(op["src"])
        other = self.raw(op["src"])  # a second result of the same read, held as well
        before = self.norm(got)
        if op["mut"].get("i", 0) % 2:
            # scribble on the SECOND result (the first call may have been the
            # one that filled a memo, the second the one served from it)
            got, other = other, got
        result = None
        if self.misbehave:
            result = scribble(got, op["mut"], self.junk(op["mut"]))
            self.last_scribble = result
        # scribbling on one result must not reach into another one
        return {"read": before, "other-result-after": self.norm(other)}


def xsnap(ex):
    """Snapshot extended with rule read-backs and public attributes."""
    w = ex.w
    snap = w.snapshot()
    for lab, d in snap.items():
        obj = w.objs[lab]
        if d["k"] == "L":
            try:
                d["rules"] = {r: getattr(obj, r) for r in c19.RULES}
                d["whitelist"] = c19.read_whitelist(obj)
            except Exception as exc:  # pylint: disable=broad-except
                d["rules!"] = type(exc).__name__
        d["attrs"] = {k: ex.norm(v) for k, v in sorted(public_attrs(obj).items())}
        try:
            # what the object says about itself (addresses and uids aside)
            d["repr"] = re.sub(r"0x[0-9a-fA-F]+|\b[0-9a-f]{8}-[0-9a-f-]{27}\b|\b\d{20,}\b", "@", repr(obj))
        except Exception as exc:  # pylint: disable=broad-except
            d["repr"] = "!" + type(exc).__name__
    return snap


class C12(c05.C05):
    id = "C12"
    title = "exchanged containers are snapshots"
    max_steps = 90
    uses_restart = False
    budget = {
        "quick": {"runs": 40000, "wall_cap_s": 900},
        "thorough": {"runs": 1500000, "wall_cap_s": 5400},
    }
    rule = (
        "one evaluation = one seeded C05-style history on twin worlds in which a misbehaving "
        "client scribbles (append/insert/remove/clear/sort/reverse/item assignment/del/pop/"
        "extend; add/discard; set/pop/clear/update, inner level too) on containers returned by "
        "accessors and queries, and on containers it passed to constructors and builders, at "
        "scheduled points; after each scribble and every later step the extended snapshots "
        "(structure, rule read-backs, public attributes) and every read agree with the "
        "unscribbled uncached twin; distinct = distinct event-log digest; non-trivial = at "
        "least one scribble actually mutated a container and at least one read followed it"
    )
    assumptions = [
        "single-threaded use",
        "the twin that never meets the misbehaving client (and runs uncached) is the reference",
        "'copied' is about the collection passed, not about objects stored inside it",
        "an immutable container must refuse with TypeError/AttributeError",
        "histories and scribble points are sampled, not enumerated",
    ]
    expected_probes = [
        "scribble:neighbors-result-cold",
        "scribble:neighbors-result-warm",
        "scribble:links-tuple",
        "scribble:vertices",
        "scribble:universes",
        "scribble:edge_whitelist-proxy",
        "scribble:find_links-set",
        "scribble:traversal-result",
        "scribble-arg:vertices",
        "scribble-arg:universes",
        "scribble-arg:links",
        "scribble-arg:attributes",
        "scribble-arg:edge_whitelist",
        "scribble-arg:adjdict",
        "scribble-arg:matrix",
        "immutable-refused",
        "read-after-scribble",
        "argument-passed-as-read-only-view",
        "scribble-arg:ends",
        "empty-whitelist",
        "whitelist-rule-sets-layered-over-shared-defaults",
        "accessor-result-scribbled-right-after-a-round-trip",
        "scribble-while-a-generator-traversal-is-suspended",
        "scribble-with-live-generators",
        "constructor-fed-by-failing-iterable",
    ]

    def make_config(self, rng):
        cfg = super().make_config(rng)
        cfg["restart"] = None
        # C05's classes with raising overrides stay out of these histories:
        # what a call cut short by user code leaves behind is C05's subject,
        # and C12's own operations do not carry C05's guard for that state
        if "PortVertex" in cfg["vertex_classes"]:
            cfg["vertex_classes"] = ["Vertex", "SubVertex"]
        cfg["edge_classes"] = [c for c in cfg["edge_classes"] if c != "BrittleEdge"] or ["DirectedEdge"]
        cfg["ntasks"] = rng.choice([0, 0, 1, 2])  # suspended generator traversals while the client scribbles
        cfg["cache"] = rng.choice(["off", "on", "on", "toggling"])
        cfg["p_scribble"] = rng.choice([0.1, 0.2, 0.35])
        cfg["nu"] = max(1, cfg["nu"])
        cfg["weights"]["mk_vertex_c"] = rng.choice([1, 2])
        cfg["weights"]["mk_universe_c"] = rng.choice([1, 2])
        cfg["weights"]["mk_laws_c"] = rng.choice([1, 2])
        if rng.random() < 0.15:
            cfg["universe_classes"] = ["Universe", "UnhashableUniverse"]
        cfg["roundtrips"] = rng.random() < 0.3
        cfg["multi"] = rng.random() < 0.25
        cfg["nmv"] = rng.randint(2, 3)
        if cfg["multi"]:
            cfg["weights"]["mk_multi_c"] = rng.choice([1, 2])
        return cfg

    def start(self, cfg):
        st = twin.TwinState(cfg)
        st.exA = ScribbleExec(st.exA.w, misbehave=True)
        st.exB = ScribbleExec(st.exB.w, misbehave=False)
        st.gen = gen.StructGen(cfg)
        st.flag = cfg["cache"] == "on"
        st.step_no = 0
        st.scribbled = 0
        st.reads_after = 0
        st.warm = set()
        return st

    # -- generation -----------------------------------------------------------------------
    def _mut(self, rng, st, kinds):
        vs = st.view.vertices()
        m = {"m": rng.choice(kinds), "i": rng.randrange(4), "rev": rng.random() < 0.5}
        if vs and rng.random() < 0.7:
            m["x"] = rng.choice(vs)
        return m

    def next_op(self, rng, cfg, st):
        if getattr(st, "diverged", False):
            return None
        if st.pending is not None and not st.pending and not st.queue:
            if cfg.get("roundtrips") and not st.tasks and rng.random() < 0.05:
                # both worlds through the pickler and back; then scribble on
                # what the accessors of the copies hand out FIRST (objects that
                # were in no universe: links, law sets, lone vertices)
                st.stats["probe:accessor-result-scribbled-right-after-a-round-trip"] += 1
                cands = st.view.kind("emL") + [v for v in st.view.vertices() if not st.view.snap[v].get("universes")]
                for obj in rng.sample(cands, min(2, len(cands))):
                    src = {"op": "get", "obj": obj, "attr": "universes"}
                    st.queue.append({"op": "scribble_ret", "src": src, "mut": self._mut(rng, st, ["append", "insert", "extend"])})
                    st.queue.append(dict(src))
                    us = st.view.universes()
                    if us and st.view.snap[obj]["k"] in "vu":
                        st.queue.append({"op": "v_add_uni", "u": rng.choice(us), "v": obj})
                        st.queue.append(dict(src))
                return {"op": "roundtrip", "proto": rng.randint(0, 5), "loader": rng.choice(["pickle", "dill"])}
            if cfg["ntasks"] and st.flag and len(st.tasks) < cfg["ntasks"] and rng.random() < 0.06:
                # a warm answer, a generator traversal started and left
                # suspended after a few steps, then the client scribbles on
                # what the same read hands out now
                r = st.gen.g_neighbors(rng, st.view, st.namer, focus=st.focus[-4:])
                args = st.gen.trav_args(rng, st.view, focus=[r["v"]] if r else st.focus[-4:])
                if r is not None and args is not None:
                    st.stats["probe:scribble-while-a-generator-traversal-is-suspended"] += 1
                    t = st.namer.new("t")
                    spawn = {"op": "spawn", "t": t, "fn": rng.choice(["ibft", "ibft", "idft_iterative"])}
                    spawn.update(args)
                    st.queue.extend(
                        [
                            spawn,
                            {"op": "step", "t": t, "n": rng.choice([2, 3])},
                            {"op": "scribble_ret", "src": dict(r), "mut": self._mut(rng, st, LIST_MUTS)},
                            dict(r),
                        ]
                    )
                    return dict(r)
            if rng.random() < cfg["p_scribble"]:
                op = self._scribble_op(rng, cfg, st)
                if op is not None:
                    # follow with reads that would show a retained alias
                    follow = dict(op["src"]) if op["op"] == "scribble_ret" else None
                    if follow is not None:
                        st.queue.append(follow)
                    r = self._read(rng, cfg, st)
                    if r is not None:
                        st.queue.append(r)
                    return op
        return super().next_op(rng, cfg, st)

    def _mutation(self, rng, cfg, st, kind=None):
        kind = gen.weighted_choice(rng, cfg["weights"])
        if kind == "mk_vertex_c":
            return self._mk_vertex_c(rng, cfg, st)
        if kind == "mk_universe_c":
            return self._mk_universe_c(rng, cfg, st)
        if kind == "mk_laws_c":
            return self._mk_laws_c(rng, cfg, st)
        if kind == "mk_multi_c":
            op = st.gen.g_mk_multi(rng, st.view, st.namer)
            if op is not None:
                op["scribble"] = {"arg": "ends", "mut": self._mut(rng, st, LIST_MUTS)}
            return op
        op = super()._mutation(rng, cfg, st, kind)
        if op is not None and op["op"] == "adj_dict" and rng.random() < 0.6:
            op["scribble"] = {"arg": "adjdict", "mut": self._mut(rng, st, DICT_MUTS)}
        if op is not None and op["op"] == "adj_matrix" and rng.random() < 0.6:
            arg = rng.choice(["matrix", "vertices", "row"])
            op["scribble"] = {"arg": arg, "mut": self._mut(rng, st, LIST_MUTS)}
        return op

    def _mk_vertex_c(self, rng, cfg, st):
        view = st.view
        if len(view.vertices()) >= cfg.get("max_vertices", 9) + 3:
            return None
        op = {"op": "mk_vertex", "new": st.namer.new("v"), "cls": "Vertex", "tag": rng.randrange(6)}
        us = view.universes()
        if us and rng.random() < 0.6:
            op["universes"] = [rng.choice(us) for _ in range(rng.choice([1, 1, 2]))]
        if rng.random() < 0.4:
            op["attrs"] = {"colour": rng.choice(["red", "blue"]), "weight": rng.randrange(5)}
        es = view.edges()
        if es and cfg.get("degenerate") and rng.random() < 0.5:
            op["links"] = [rng.choice(es) for _ in range(rng.choice([1, 1, 2]))]
        arg = rng.choice([a for a in ("universes", "links", "attributes") if a == "attributes" or a in op])
        kinds = DICT_MUTS if arg == "attributes" else LIST_MUTS
        op["scribble"] = {"arg": arg, "mut": self._mut(rng, st, kinds)}
        return op

    def _mk_universe_c(self, rng, cfg, st):
        view = st.view
        if len(view.universes()) >= 5:
            return None
        vs = view.plain_vertices()
        op = {"op": "mk_universe", "new": st.namer.new("u"), "cls": "Universe", "tag": rng.randrange(6)}
        op["vertices"] = [rng.choice(vs) for _ in range(rng.choice([0, 1, 2, 3]))] if vs else []
        if op["vertices"] and rng.random() < 0.15:
            # the iterable fails part-way: the constructor raises, and the
            # half-built universe stays reachable through the members it took
            op["as"] = f"gen_raises:{rng.randint(1, len(op['vertices']))}"
            st.stats["probe:constructor-fed-by-failing-iterable"] += 1
            return op
        if rng.random() < 0.3:
            op["as_set"] = True
            op["vertices"] = list(dict.fromkeys(op["vertices"]))[:1]
            op["scribble"] = {"arg": "vertices", "mut": self._mut(rng, st, SET_MUTS)}
        else:
            op["scribble"] = {"arg": "vertices", "mut": self._mut(rng, st, LIST_MUTS)}
        return op

    def _mk_laws_c(self, rng, cfg, st):
        if len(st.view.laws()) >= 6:
            return None
        op = {"op": "mk_laws", "new": st.namer.new("L"), "kw": {}}
        spec = []
        for _ in range(rng.choice([0, 1, 1, 2, 3])):  # an empty whitelist is a whitelist too
            inner = [
                [rng.choice(c19.WL_NAMES[:3]), rng.choice(c19.WL_NAMES[3:])]
                for _ in range(rng.randint(0, 3))
            ]
            spec.append([rng.choice(c19.WL_NAMES[:3]), inner])
        op["wl"] = spec
        if not spec:
            st.stats["probe:empty-whitelist"] += 1
        r = rng.random()
        if r < 0.3:
            op["wl_as"] = "proxy"
        elif r < 0.4:
            op["wl_as"] = "proxy2"
        op["scribble"] = {"arg": "edge_whitelist", "mut": self._mut(rng, st, DICT_MUTS)}
        if 0.4 <= r < 0.55 and any(inner for _, inner in spec):
            op["wl_as"] = "chainmap"
            op["scribble"] = {"arg": "edge_whitelist", "mut": self._mut(rng, st, ["clear", "pop_one"])}
            st.stats["probe:whitelist-rule-sets-layered-over-shared-defaults"] += 1
        return op

    def _scribble_op(self, rng, cfg, st):
        view = st.view
        r = rng.random()
        src = None
        if r < 0.45:
            if st.warm and st.flag and rng.random() < 0.6:
                # a result that is (also) sitting in the cache right now
                src = json.loads(rng.choice(sorted(st.warm)))
            else:
                src = st.gen.g_neighbors(rng, view, st.namer, focus=st.focus[-4:])
            kinds = LIST_MUTS
        elif r < 0.6:
            attr, ks = rng.choice(ACCESSORS)
            cands = view.kind(ks)
            if cands:
                src = {"op": "get", "obj": rng.choice(cands), "attr": attr}
            kinds = PROXY_MUTS if attr == "edge_whitelist" else LIST_MUTS
        elif r < 0.75:
            src = st.gen.g_find_links(rng, view, st.namer, focus=st.focus[-4:])
            if src is not None:
                src.pop("ff", None)
            kinds = SET_MUTS
        else:
            src = st.gen.g_trav(rng, view, st.namer, focus=st.focus[-4:])
            if src is not None and src["fn"] in O.GEN_TRAVS:
                src["fn"] = src["fn"][1:]
            kinds = LIST_MUTS
        if src is None:
            return None
        return {"op": "scribble_ret", "src": src, "mut": self._mut(rng, st, kinds)}

    # -- execution ---------------------------------------------------------------------------
    def _roundtrip(self, st, op):
        """Both worlds through edgegraph's own pickler and back, in this process."""
        import pickle

        from egsim.world import World

        for ex in (st.exA, st.exB):
            for g in list(ex.tasks.values()):
                try:
                    g.close()
                except Exception:  # pylint: disable=broad-except
                    pass
            ex.tasks.clear()
        st.tasks = []
        seams.set_flag(False)
        before = xsnap(st.exB)
        for ex in (st.exA, st.exB):
            w = ex.w
            box = C.WorldBox(list(w.objs), list(w.objs.values()))
            try:
                data = nrpickler.dumps(box, protocol=op.get("proto", 4))
                if op.get("loader") == "dill":
                    import dill

                    box2 = dill.loads(data)
                else:
                    box2 = pickle.loads(data)
            except Exception:  # pylint: disable=broad-except
                st.stats["note:round-trip-failed"] += 1
                st.diverged = True
                return {"roundtrip": "failed"}, None
            w2 = World()
            for lab, obj in zip(box2.labels, box2.objs):
                w2.add(lab, obj, w.kind[lab])
            w2._disc = dict(w._disc)  # pylint: disable=protected-access
            ex.w = w2
            ex.shared = {}
            ex.held = {}
        st.stats["fault:restart"] += 1
        st.stats["restart:inproc"] += 1
        st.warm.clear()
        st.refresh()
        if xsnap(st.exB) != before or xsnap(st.exA) != before:
            # the round trip itself changed something: C10's matter
            st.stats["note:round-trip-changed-the-structure"] += 1
            st.diverged = True
            return {"roundtrip": "changed"}, None
        return {"roundtrip": "ok"}, None

    def execute(self, st, op):
        k = op["op"]
        s = st.stats
        if getattr(st, "diverged", False):
            return None, None
        if k == "roundtrip":
            return self._roundtrip(st, op)
        if k == "get":
            a, b = st.apply_both(op)
            if a is None and b is None:
                return None, None
            s["op:get"] += 1
            out = {"A": a, "B": b, "flag": st.flag}
            if a != b:
                return out, engine.viol(
                    "C12/accessor-differs-after-scribble",
                    {"op": op, "scribbled_world": a, "clean_world": b},
                )
            if st.scribbled:
                st.reads_after += 1
                s["probe:read-after-scribble"] += 1
            return out, None
        if k == "scribble_ret" and st.tasks:
            s["probe:scribble-with-live-generators"] += 1
        if k != "scribble_ret" and not op.get("scribble"):
            out, v = super().execute(st, op)
            if v is not None:
                v["kind"] = v["kind"].replace("C05/", "C12/after-scribble:")
                return out, v
            if out is not None and k in c05.READ_OPS and st.scribbled:
                st.reads_after += 1
                s["probe:read-after-scribble"] += 1
            if k == "neighbors" and st.flag and out is not None:
                st.warm.add(engine.jdump(op))
            if out is not None and k in c05.MUTATING_OPS:
                st.warm.clear()
                v = self._compare_x(st, op)
            return out, v

        # an operation with a scribble attached
        if k == "scribble_ret":
            src = op["src"]
            key = engine.jdump(src)
            if src["op"] == "neighbors":
                s["probe:scribble:neighbors-result-" + ("warm" if key in st.warm and st.flag else "cold")] += 1
            elif src["op"] == "get":
                name = {"links": "links-tuple", "vertices": "vertices", "universes": "universes", "edge_whitelist": "edge_whitelist-proxy"}[src["attr"]]
                s["probe:scribble:" + name] += 1
            elif src["op"] == "find_links":
                s["probe:scribble:find_links-set"] += 1
            else:
                s["probe:scribble:traversal-result"] += 1
        else:
            s["probe:scribble-arg:" + op["scribble"]["arg"].replace("row", "matrix")] += 1
            if op.get("wl_as"):
                s["probe:argument-passed-as-read-only-view"] += 1
        a, b = st.apply_both(op)
        if a is None and b is None:
            return None, None
        s["op:" + k] += 1
        result = st.exA.last_scribble
        out = {"A": a, "B": b, "flag": st.flag, "scribble": result}
        if result == "mutated":
            st.scribbled += 1
            s["fault:scribble"] += 1
        elif result == "immutable":
            s["probe:immutable-refused"] += 1
            s["fault:scribble-refused"] += 1
        if a != b:
            kind = f"C12/outcome-differs:{k}"
            if (
                k == "scribble_ret"
                and "ret" in a and "ret" in b
                and a["ret"].get("read") == b["ret"].get("read")
            ):
                kind = "C12/two-results-of-one-read-share-an-object:" + op["src"]["op"]
            return out, engine.viol(kind, {"op": op, "scribbled_world": a, "clean_world": b})
        if k != "scribble_ret":
            st.mutations += 1
            st.mut_since_read = True
            st.refresh()
            st.warm.clear()
        v = self._compare_x(st, op)
        if v is not None:
            return out, v
        if k == "scribble_ret" and ("exc" not in a):
            # the same read again must still give the pre-scribble value
            src = op["src"]
            a2, b2 = st.apply_both(src)
            if a2 != b2 or (a2 is not None and a2.get("ret") != a["ret"]["read"] and "exc" not in a2):
                kind = "C12/returned-container-aliases-internal-state:" + src["op"]
                if src["op"] == "get":
                    kind += ":" + src["attr"]
                return out, engine.viol(
                    kind,
                    {"op": op, "before": a["ret"]["read"], "after": a2, "clean_world": b2},
                )
        return out, None

    def _compare_x(self, st, op):
        seams.set_flag(False)
        xa, xb = xsnap(st.exA), xsnap(st.exB)
        if xa != xb:
            from egsim import model as M

            diff = M.first_difference(xa, xb)
            kind = "C12/world-changed-by-scribble"
            sc = op.get("scribble")
            if sc:
                kind = "C12/argument-container-aliased:" + sc["arg"]
            return engine.viol(kind, {"op": op, "diff": diff})
        return None

    def nontrivial(self, st):
        return st.scribbled >= 1 and st.reads_after >= 1

    def finish(self, st):
        st.cache_delta()
        for ex in (st.exA, st.exB):
            for g in list(ex.tasks.values()):
                try:
                    g.close()
                except Exception:  # pylint: disable=broad-except
                    pass
            ex.tasks.clear()
        return self._compare_x(st, {"op": "finish"})


PROPERTY = C12()
