"""
Seeded operation generators.  They read only a *view* (the plain-data snapshot
of the world) and the scheduler's PRNG, so the same seed draws the same history
in any process.

Swarm style: which operation kinds exist in a run, with what weight, how much
aliasing, which classes -- all drawn per run into the configuration.
"""

from egsim import ops as O

EDGE_CLASSES = [
    "DirectedEdge",
    "UnDirectedEdge",
    "SubDirected",
    "SubUnDirected",
    "OtherTwoEnded",
    "RenamedDirected",
    "FalsyClassEdge",
]
KNOWN_EDGE_CLASSES = EDGE_CLASSES[:4] + EDGE_CLASSES[5:]

# ---- operation kinds by family -----------------------------------------------
LINK_MUTATORS = [
    "mk_edge",
    "set_end",
    "link",
    "unlink",
    "add_to_link",
    "remove_from_link",
    "add_vertex",
    "unlink_from",
    "mk_vertex_links",
]
MULTI_MUTATORS = ["mk_multi", "multi_add", "multi_unlink", "multi_v_add", "multi_v_remove"]
UNIVERSE_MUTATORS = [
    "uni_add",
    "uni_remove",
    "v_add_uni",
    "v_remove_uni",
    "mk_vertex_unis",
    "mk_universe_verts",
]
READS = ["neighbors", "find_links", "trav", "search"]


def geometric_steps(rng, lo, hi, mean):
    """History length with a bias to short runs."""
    n = lo + int(rng.expovariate(1.0 / max(1.0, mean - lo)))
    return max(lo, min(hi, n))


def swarm_weights(rng, kinds, p_enable=0.7, always=()):
    w = {}
    for k in kinds:
        if k in always or rng.random() < p_enable:
            w[k] = rng.choice([1, 1, 2, 3, 5])
    if not w:
        k = rng.choice(list(kinds))
        w[k] = 1
    return w


def weighted_choice(rng, weights):
    items = sorted(weights.items())
    tot = sum(w for _, w in items)
    x = rng.random() * tot
    acc = 0.0
    for k, w in items:
        acc += w
        if x < acc:
            return k
    return items[-1][0]


class Namer:
    """Allocates `new` labels; plain data so it survives a restart."""

    def __init__(self, counters=None):
        self.c = dict(counters or {})

    def new(self, prefix):
        n = self.c.get(prefix, 0)
        self.c[prefix] = n + 1
        return f"{prefix}{n}"


class View:
    """Convenience over a snapshot dict."""

    def __init__(self, snap):
        self.snap = snap
        self.by_kind = {}
        for lab, d in snap.items():
            self.by_kind.setdefault(d["k"], []).append(lab)

    def kind(self, k):
        out = []
        for ch in k:
            out.extend(self.by_kind.get(ch, ()))
        return out

    def vertices(self):
        """vertex-like labels in creation order (universes are vertices)."""
        return [l for l, d in self.snap.items() if d["k"] in "vu"]

    def plain_vertices(self):
        return self.by_kind.get("v", [])

    def universes(self):
        return self.by_kind.get("u", [])

    def edges(self):
        return self.by_kind.get("e", [])

    def multis(self):
        return self.by_kind.get("m", [])

    def laws(self):
        return self.by_kind.get("L", [])

    def ends(self, e):
        return self.snap[e].get("ends", [])

    def links_of(self, v):
        return self.snap[v].get("links", [])


class StructGen:
    """
    Draws structure operations.  `pool` restricts the vertex labels used for
    two-ended links (multi-ended links live on a disjoint sub-pool, DESIGN 6.4).
    """

    def __init__(self, cfg):
        self.cfg = cfg

    # -- argument pickers ---------------------------------------------------------
    def pick_vertex(self, rng, view, prefer=(), allow_none=True, pool=None):
        cfg = self.cfg
        cands = pool if pool is not None else self.pool(view)
        if allow_none and rng.random() < cfg.get("p_none", 0.0):
            return None
        prefer = [p for p in prefer if p is not None and p in cands]
        if prefer and rng.random() < cfg.get("p_alias", 0.3):
            return rng.choice(prefer)
        if not cands:
            return None
        return rng.choice(cands)

    def pool(self, view):
        vs = view.vertices()
        if self.cfg.get("multi"):
            mp = set(self.multi_pool(view))
            vs = [v for v in vs if v not in mp]
        if not self.cfg.get("universes_as_ends", True):
            vs = [v for v in vs if view.snap[v]["k"] == "v"]
        return vs

    def multi_pool(self, view):
        return [
            v
            for v in view.plain_vertices()
            if view.snap[v].get("cls") == "Vertex" and v.startswith("mv")
        ]

    ARG_KINDS = ["tuple", "iter", "gen", "dictkeys", "reversed2"]

    def arg_kind(self, rng, op):
        """Hand the sequence argument over as some other kind of iterable."""
        if self.cfg.get("raising_iterables") and rng.random() < 0.12:
            op["as"] = f"gen_raises:{rng.choice([0, 1, 1, 2])}"
        elif rng.random() < self.cfg.get("p_arg_kind", 0.35):
            op["as"] = rng.choice(self.ARG_KINDS)

    def edge_class(self, rng):
        return rng.choice(self.cfg["edge_classes"])

    # -- one draw ----------------------------------------------------------------------
    def draw(self, rng, view, namer, kind):
        fn = getattr(self, "g_" + kind)
        op = fn(rng, view, namer)
        p = self.cfg.get("p_w_error")
        if op is not None and p and rng.random() < p:
            # the application runs with warnings turned into errors
            op["w_error"] = True
        return op

    # link family ---------------------------------------------------------
    def room_for_links(self, view):
        return len(view.edges()) + len(view.multis()) < self.cfg.get(
            "max_links", 10
        )

    def g_mk_edge(self, rng, view, namer):
        if not self.room_for_links(view):
            return None
        a = self.pick_vertex(rng, view)
        b = self.pick_vertex(rng, view, prefer=[a])
        if rng.random() < self.cfg.get("p_bad", 0.0):
            bad = {"bad": rng.choice(["int", "str", "obj", "link"])}
            if rng.random() < 0.5:
                a = bad
            else:
                b = bad
        return {
            "op": "mk_edge",
            "new": namer.new("e"),
            "cls": self.edge_class(rng),
            "a": a,
            "b": b,
        }

    def g_set_end(self, rng, view, namer):
        es = view.edges()
        if not es:
            return None
        e = rng.choice(es)
        ends = view.ends(e)
        which = rng.choice([1, 2])
        x = self.pick_vertex(rng, view, prefer=ends)
        op = {"op": "set_end", "e": e, "which": which, "x": x}
        if self.cfg.get("p_item_syntax") and rng.random() < self.cfg["p_item_syntax"]:
            op["via"] = "item"
        return op

    def g_link(self, rng, view, namer):
        if not self.room_for_links(view):
            return None
        a = self.pick_vertex(rng, view, allow_none=False)
        if a is None:
            return None
        # prefer a vertex already joined to a (so that dontdup has work to do)
        joined = []
        for l in view.links_of(a):
            if view.snap.get(l, {}).get("k") == "e":
                joined.extend(x for x in view.ends(l))
        b = self.pick_vertex(rng, view, prefer=joined + [a], allow_none=False)
        fn = rng.choice(["link_from_to", "link_directed", "link_undirected"])
        op = {
            "op": "link",
            "new": namer.new("e"),
            "fn": fn,
            "a": a,
            "b": b,
            "dontdup": rng.random() < 0.5,
        }
        if fn == "link_from_to":
            op["cls"] = self.edge_class(rng)
        return op

    def g_unlink(self, rng, view, namer):
        es = view.edges()
        if es and rng.random() < 0.8:
            ends = [x for x in view.ends(rng.choice(es)) if x is not None]
            if len(ends) >= 2:
                a, b = ends[0], ends[1]
                if rng.random() < 0.5:
                    a, b = b, a
            elif ends:
                a = ends[0]
                b = self.pick_vertex(rng, view, allow_none=False)
            else:
                a = self.pick_vertex(rng, view, allow_none=False)
                b = self.pick_vertex(rng, view, prefer=[a], allow_none=False)
        else:
            a = self.pick_vertex(rng, view, allow_none=False)
            b = self.pick_vertex(rng, view, prefer=[a], allow_none=False)
        if a is None or b is None:
            return None
        op = {"op": "unlink", "a": a, "b": b}
        r = rng.random()
        if r < 0.4:
            op["destroy"] = False
        elif r < 0.7:
            op["destroy"] = True
        return op

    def _v_and_edge(self, rng, view, member):
        """(vertex, edge) with the vertex an end of the edge iff `member`."""
        es = view.edges()
        if not es:
            return None, None
        e = rng.choice(es)
        ends = [x for x in view.ends(e) if x is not None]
        if member and ends:
            return rng.choice(ends), e
        v = self.pick_vertex(rng, view, prefer=ends, allow_none=False)
        return v, e

    def g_add_to_link(self, rng, view, namer):
        v, e = self._v_and_edge(rng, view, rng.random() < 0.3)
        if v is None:
            return None
        return {"op": "add_to_link", "v": v, "e": e}

    def g_remove_from_link(self, rng, view, namer):
        v, e = self._v_and_edge(rng, view, rng.random() < 0.8)
        if v is None:
            return None
        return {"op": "remove_from_link", "v": v, "e": e}

    def g_add_vertex(self, rng, view, namer):
        v, e = self._v_and_edge(rng, view, rng.random() < 0.3)
        if e is None:
            return None
        if rng.random() < self.cfg.get("p_none", 0.0):
            v = None
        return {"op": "add_vertex", "e": e, "v": v}

    def g_unlink_from(self, rng, view, namer):
        v, e = self._v_and_edge(rng, view, rng.random() < 0.8)
        if e is None:
            return None
        if None in view.ends(e) and rng.random() < 0.3:
            v = None
        return {"op": "unlink_from", "e": e, "v": v}

    def g_mk_vertex_links(self, rng, view, namer):
        if len(view.vertices()) >= self.cfg.get("max_vertices", 9):
            return None
        es = view.edges()
        if not es:
            return None
        k = rng.choice([1, 1, 2, 3])
        links = [rng.choice(es) for _ in range(k)]
        op = {
            "op": "mk_vertex",
            "new": namer.new("v"),
            "cls": rng.choice(self.cfg.get("vertex_classes", ["Vertex"])),
            "links": links,
            "tag": rng.randrange(6),
        }
        self.arg_kind(rng, op)
        return op

    def g_mk_vertex(self, rng, view, namer):
        if len(view.vertices()) >= self.cfg.get("max_vertices", 9):
            return None
        op = {
            "op": "mk_vertex",
            "new": namer.new("v"),
            "cls": rng.choice(self.cfg.get("vertex_classes", ["Vertex"])),
            "tag": rng.randrange(6),
        }
        if op["cls"] == "HandoverVertex" and view.vertices():
            op["heir"] = rng.choice(view.vertices())
        return odd_attrs(rng, self.cfg, op)

    # multi-ended links on their own sub-pool -----------------------------------------
    def g_mk_multi(self, rng, view, namer):
        mp = self.multi_pool(view)
        if not mp or not self.room_for_links(view):
            return None
        k = rng.choice([0, 1, 2, 2, 3, 4])
        ends = []
        for _ in range(k):
            ends.append(
                self.pick_vertex(rng, view, prefer=ends, pool=mp)
            )
        if self.cfg.get("multi_no_repeat"):
            ends = list(dict.fromkeys(ends))
        op = {"op": "mk_multi", "new": namer.new("m"), "ends": ends}
        if rng.random() < self.cfg.get("p_arg_kind", 0.35):
            # (no kind that drops repeated items: a link may name a vertex twice)
            op["as"] = rng.choice(["tuple", "iter", "gen", "reversed2"])
        return op

    def _mv_and_multi(self, rng, view, member):
        ms = view.multis()
        mp = self.multi_pool(view)
        if not ms or not mp:
            return None, None
        m = rng.choice(ms)
        ends = [x for x in view.ends(m) if x is not None]
        if member and ends:
            return rng.choice(ends), m
        return rng.choice(mp), m

    def g_multi_add(self, rng, view, namer):
        v, m = self._mv_and_multi(rng, view, rng.random() < 0.4)
        if m is None:
            return None
        if rng.random() < self.cfg.get("p_none", 0.0):
            v = None
        if self.cfg.get("multi_no_repeat") and v in view.ends(m):
            return None
        return {"op": "add_vertex", "e": m, "v": v}

    def g_multi_unlink(self, rng, view, namer):
        v, m = self._mv_and_multi(rng, view, rng.random() < 0.8)
        if m is None:
            return None
        if None in view.ends(m) and rng.random() < 0.3:
            v = None
        return {"op": "unlink_from", "e": m, "v": v}

    def g_multi_v_add(self, rng, view, namer):
        v, m = self._mv_and_multi(rng, view, rng.random() < 0.3)
        if m is None:
            return None
        return {"op": "add_to_link", "v": v, "e": m}

    def g_multi_v_remove(self, rng, view, namer):
        v, m = self._mv_and_multi(rng, view, rng.random() < 0.8)
        if m is None:
            return None
        return {"op": "remove_from_link", "v": v, "e": m}

    # universe family -----------------------------------------------------------
    def _u_and_v(self, rng, view, member):
        us = view.universes()
        if not us:
            return None, None
        u = rng.choice(us)
        members = view.snap[u].get("members", [])
        if member and members:
            return u, rng.choice(members)
        vs = view.vertices()
        if not self.cfg.get("nested_universes", True):
            vs = view.plain_vertices()
        if not vs:
            return None, None
        if rng.random() < self.cfg.get("p_alias", 0.3):
            return u, u if self.cfg.get("nested_universes", True) else rng.choice(vs)
        return u, rng.choice(vs)

    def g_uni_add(self, rng, view, namer):
        u, v = self._u_and_v(rng, view, rng.random() < 0.25)
        if u is None:
            return None
        return {"op": "uni_add", "u": u, "v": v}

    def g_uni_remove(self, rng, view, namer):
        u, v = self._u_and_v(rng, view, rng.random() < 0.75)
        if u is None:
            return None
        return {"op": "uni_remove", "u": u, "v": v}

    def g_v_add_uni(self, rng, view, namer):
        u, v = self._u_and_v(rng, view, rng.random() < 0.25)
        if u is None:
            return None
        return {"op": "v_add_uni", "v": v, "u": u}

    def g_v_remove_uni(self, rng, view, namer):
        u, v = self._u_and_v(rng, view, rng.random() < 0.75)
        if u is None:
            return None
        return {"op": "v_remove_uni", "v": v, "u": u}

    def g_mk_vertex_unis(self, rng, view, namer):
        us = view.universes()
        if not us or len(view.vertices()) >= self.cfg.get("max_vertices", 9):
            return None
        k = rng.choice([1, 1, 2, 3])
        unis = [rng.choice(us) for _ in range(k)]
        op = {
            "op": "mk_vertex",
            "new": namer.new("v"),
            "cls": rng.choice(self.cfg.get("vertex_classes", ["Vertex"])),
            "universes": unis,
            "tag": rng.randrange(6),
        }
        shares = self.__dict__.setdefault("shares", [])
        if shares and rng.random() < 0.25:
            # pass the list object an earlier construction was given
            key, labels = rng.choice(shares)
            if all(l in view.snap for l in labels):
                op["universes"] = list(labels)
                op["share"] = key
                return op
        if rng.random() < 0.3:
            op["share"] = f"s{len(shares)}"
            shares.append((op["share"], list(unis)))
            return op
        self.arg_kind(rng, op)
        return op

    def g_mk_universe_verts(self, rng, view, namer):
        if len(view.universes()) >= self.cfg.get("max_universes", 4):
            return None
        vs = view.vertices()
        if not self.cfg.get("nested_universes", True):
            vs = view.plain_vertices()
        k = rng.choice([0, 1, 2, 3, 4]) if vs else 0
        members = [rng.choice(vs) for _ in range(k)]
        op = {
            "op": "mk_universe",
            "new": namer.new("u"),
            "cls": rng.choice(self.cfg.get("universe_classes", ["Universe"])),
            "vertices": members,
            "tag": rng.randrange(6),
        }
        self.arg_kind(rng, op)
        return op

    # reads ----------------------------------------------------------------------
    def read_settings(self, rng):
        op = {}
        r = rng.random()
        if r < 0.8:
            op["dir"] = rng.choice(["fwd", "fwd", "any", "any", "back", "back", "T", "F"])
        if rng.random() < 0.8:
            op["unk"] = rng.choice(["non", "nb", "err"])
        return op

    def g_neighbors(self, rng, view, namer, focus=()):
        v = self.pick_vertex(rng, view, prefer=list(focus), allow_none=False)
        if v is None:
            return None
        op = {"op": "neighbors", "v": v}
        op.update(self.read_settings(rng))
        ff = rng.choice(self.cfg.get("nb_filters", [None]))
        if ff is not None:
            op["ff"] = ff
        return op

    def g_find_links(self, rng, view, namer, focus=()):
        a = self.pick_vertex(rng, view, prefer=list(focus), allow_none=False)
        if a is None:
            return None
        joined = []
        for l in view.links_of(a):
            if view.snap.get(l, {}).get("k") == "e":
                joined.extend(x for x in view.ends(l))
        b = self.pick_vertex(rng, view, prefer=joined, allow_none=False)
        op = {"op": "find_links", "a": a, "b": b}
        if rng.random() < 0.7:
            op["ds"] = rng.random() < 0.5
        if rng.random() < 0.8:
            op["unk"] = rng.choice(["non", "nb", "err"])
        ff = rng.choice(self.cfg.get("fl_filters", [None]))
        if ff is not None:
            op["ff"] = ff
        return op

    def trav_args(self, rng, view, focus=()):
        us = view.universes()
        u = None
        if us and rng.random() < 0.6:
            u = rng.choice(us)
        if u is not None and view.snap[u].get("members") and rng.random() < 0.85:
            cands = view.snap[u]["members"]
            pref = [f for f in focus if f in cands]
            s = rng.choice(pref) if pref and rng.random() < 0.5 else rng.choice(cands)
        else:
            s = self.pick_vertex(rng, view, prefer=list(focus), allow_none=False)
        if s is None:
            return None
        op = {"u": u, "s": s}
        op.update(self.read_settings(rng))
        ffv = rng.choice(self.cfg.get("nb_filters", [None]))
        if ffv is not None:
            op["ffv"] = ffv
        ffr = rng.choice(self.cfg.get("result_filters", [None]))
        if ffr is not None:
            op["ffr"] = ffr
        return op

    def g_trav(self, rng, view, namer, focus=()):
        args = self.trav_args(rng, view, focus)
        if args is None:
            return None
        op = {"op": "trav", "fn": rng.choice(sorted(O.TRAVS))}
        op.update(args)
        return op

    def g_search(self, rng, view, namer, focus=()):
        args = self.trav_args(rng, view, focus)
        if args is None:
            return None
        return {
            "op": "search",
            "fn": rng.choice(sorted(O.SEARCHES)),
            "u": args["u"],
            "s": args["s"],
            "attr": rng.choice(["sim_tag", "sim_tag", "nope"]),
            "val": rng.randrange(6),
        }


def odd_attrs(rng, cfg, op):
    """
    User attributes that are legal but unusual: names that begin with two
    underscores, one-shot iterators as values (only where the configuration
    asks for them).
    """
    p = cfg.get("p_odd_attrs")
    if p and rng.random() < p:
        attrs = {}
        if rng.random() < 0.6:
            attrs[rng.choice(["__tag", "__origin", "__make_pyvis_net_j"])] = rng.randrange(4)
        if rng.random() < 0.6:
            attrs[rng.choice(["colour", "note"])] = {"$iter": rng.randint(1, 4)}
        if attrs:
            op["attrs"] = attrs
    return op


def setup_ops(rng, cfg, namer):
    """The operations that create the initial pools of a run."""
    ops = []
    vclasses = cfg.get("vertex_classes", ["Vertex"])
    for _ in range(cfg.get("nv", 3)):
        ops.append(
            odd_attrs(
                rng,
                cfg,
                {
                    "op": "mk_vertex",
                    "new": namer.new("v"),
                    "cls": rng.choice(vclasses),
                    "tag": rng.randrange(6),
                },
            )
        )
    if cfg.get("multi"):
        for _ in range(cfg.get("nmv", 2)):
            ops.append(
                {
                    "op": "mk_vertex",
                    "new": namer.new("mv"),
                    "cls": "Vertex",
                    "tag": rng.randrange(6),
                }
            )
    for _ in range(cfg.get("nu", 0)):
        ops.append(
            {
                "op": "mk_universe",
                "new": namer.new("u"),
                "cls": rng.choice(cfg.get("universe_classes", ["Universe"])),
                "tag": rng.randrange(6),
            }
        )
    return ops


# ---- builders used as mutators of existing vertices ----------------------------
def g_adj_dict(sg, rng, view, namer, cells=None):
    pool = sg.pool(view)
    if not pool or not sg.room_for_links(view):
        return None
    nkeys = rng.choice([1, 1, 2, 3])
    keys = rng.sample(pool, min(nkeys, len(pool)))
    adj = []
    budget = sg.cfg.get("max_links", 10) - len(view.edges()) - len(view.multis())
    for k in keys:
        n = rng.choice([0, 1, 1, 2, 3])
        vals = []
        for _ in range(n):
            if budget <= 0:
                break
            vals.append(sg.pick_vertex(rng, view, prefer=[k] + vals, allow_none=False))
            budget -= 1
        adj.append([k, vals])
    op = {"op": "adj_dict", "new": namer.new("u"), "adj": adj}
    if rng.random() < sg.cfg.get("p_arg_kind", 0.35):
        op["vals_as"] = rng.choice(["tuple", "iter", "gen"])
    if rng.random() < 0.75:
        op["cls"] = sg.edge_class(rng)
    else:
        op["cls"] = None
    return op


def g_adj_matrix(sg, rng, view, namer, cell_pool=("0", "0", "1"), p_bad_shape=0.0):
    pool = sg.pool(view)
    if not pool or not sg.room_for_links(view):
        return None
    n = rng.choice([1, 2, 2, 3, 4])
    if rng.random() < 0.04:
        n = 0  # "any size": the empty graph is a matrix without rows
    if rng.random() < 0.85:
        verts = rng.sample(pool, min(n, len(pool)))
    else:
        verts = [rng.choice(pool) for _ in range(n)]
    n = len(verts)
    budget = sg.cfg.get("max_links", 10) - len(view.edges()) - len(view.multis())
    matrix = []
    for _ in range(n):
        row = []
        for _ in range(n):
            c = rng.choice(cell_pool)
            from egsim.ops import cell_truth

            if cell_truth(c):
                if budget <= 0:
                    c = "0"
                else:
                    budget -= 1
            row.append(c)
        matrix.append(row)
    if rng.random() < p_bad_shape:
        r = rng.random()
        if r < 0.35 and matrix:
            i = rng.randrange(len(matrix))
            if rng.random() < 0.5 and matrix[i]:
                matrix[i] = matrix[i][:-1]
            else:
                matrix[i] = matrix[i] + ["1"]
        elif r < 0.6:
            verts = verts + [rng.choice(pool)]
        elif r < 0.8 and verts:
            verts = verts[:-1]
        else:
            matrix = matrix + [["1"] * n]
    op = {"op": "adj_matrix", "new": namer.new("u"), "matrix": matrix, "verts": verts}
    if rng.random() < sg.cfg.get("p_arg_kind", 0.35) * 0.6:
        op["rows_as"] = "tuple"
    if rng.random() < 0.75:
        op["cls"] = sg.edge_class(rng)
    else:
        op["cls"] = None
    return op
