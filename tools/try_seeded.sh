#!/bin/sh
# usage: tools/try_seeded.sh <mutant dir> <ID> [runs]   -- run one check against a scratch copy with the patch applied
d=$(mktemp -d /dev/shm/egsim-try-XXXXXX)
cp -r /repo/edgegraph $d/
( cd $d && patch -s -p1 -i "$1/patch.diff" ) || { echo "patch failed"; rm -rf $d; exit 3; }
cd /verif
if [ -n "$3" ]; then extra="--runs $3"; fi
VERIF_REPO_ROOT=$d VERIF_EVIDENCE_DIR=$d/evidence ./check $2 $extra 2>&1 | grep -v "^\[" | cut -c1-400 | tail -${TAILN:-4}
rm -rf $d
