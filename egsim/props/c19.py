"""
C19 -- a universe and its laws always point at each other, after any
(re)assignments (DESIGN 4/C19).

Workload: `u.laws = L | None`, `L.applies_to = u | None`, `Universe()`,
`Universe(laws=L)` over small pools, including re-assignment of a law set that
another universe is using and assignment after None; attempts to set each rule
attribute.
Oracle after every step, over every universe and law set known to the run
(default law sets are discovered through `u.laws`):  `u.laws is L`  iff
`L.applies_to is u`.  Every assignment must return without raising and its own
target must hold afterwards.  Rule attributes read back the constructor's
values at every step; setting one raises and changes nothing.
"""

import collections

from egsim import classes as C
from egsim import engine, gen, ops as O
from egsim.props.common import deep_tier
from egsim.world import World

RULES = ("mixed_links", "cycles", "multipath", "multiverse")
DEFAULT_RULES = {
    "edge_whitelist": None,
    "mixed_links": False,
    "cycles": True,
    "multipath": True,
    "multiverse": False,
}
WL_NAMES = ["Vertex", "SubVertex", "Universe", "DirectedEdge", "UnDirectedEdge"]


def decode_whitelist(spec):
    if spec is None:
        return None
    out = {}
    for outer, inner in spec:
        out[C.ALL_CLASSES[outer]] = {
            C.ALL_CLASSES[a]: C.ALL_CLASSES[b] for a, b in inner
        }
    return out


def normal_whitelist_spec(spec):
    """What reading back must give, as nested name lists (dict semantics)."""
    if spec is None:
        return None
    out = {}
    for outer, inner in spec:
        out[outer] = dict((a, b) for a, b in inner)
    return {k: dict(sorted(v.items())) for k, v in sorted(out.items())}


def read_whitelist(law):
    wl = law.edge_whitelist
    if wl is None:
        return None
    out = {}
    for outer, inner in wl.items():
        out[outer.__name__] = {a.__name__: b.__name__ for a, b in inner.items()}
    return {k: dict(sorted(v.items())) for k, v in sorted(out.items())}


class LawExec(O.Exec):
    def op_set_laws(self, op):
        if op.get("via") == "item":
            self.g(op["u"])["laws"] = self.g(op["L"])  # the keyed spelling BaseObject offers
        else:
            self.g(op["u"]).laws = self.g(op["L"])

    def op_set_applies(self, op):
        if op.get("via") == "item":
            self.g(op["L"])["applies_to"] = self.g(op["u"])
        else:
            self.g(op["L"]).applies_to = self.g(op["u"])

    def op_mk_laws(self, op):
        kw = dict(op.get("kw") or {})
        if "wl" in op:
            kw["edge_whitelist"] = decode_whitelist(op["wl"])
            if op.get("wl_share") is not None and kw["edge_whitelist"] is not None:
                # a preset dictionary the caller keeps, edits and passes again
                store = self.__dict__.setdefault("shared_wl", {})
                d = store.setdefault(op["wl_share"], {})
                d.clear()
                d.update(kw["edge_whitelist"])
                kw["edge_whitelist"] = d
            if op.get("wl_inner") == "defaultdict" and kw["edge_whitelist"] is not None:
                # per-type tables of a mapping type with a behaviour of its own
                for key, inner in list(kw["edge_whitelist"].items()):
                    dd = collections.defaultdict(lambda: None)
                    dd.update(inner)
                    kw["edge_whitelist"][key] = dd
            elif op.get("wl_inner") == "ordered" and kw["edge_whitelist"] is not None:
                for key, inner in list(kw["edge_whitelist"].items()):
                    kw["edge_whitelist"][key] = collections.OrderedDict(inner)
        from edgegraph.structure.universe import UniverseLaws

        if op.get("positional"):
            # the documented order: edge_whitelist, mixed_links, cycles, multipath, multiverse
            order = ["edge_whitelist"] + list(RULES)
            n = op["positional"]
            args = [kw.pop(name) for name in order[:n]]
            law = UniverseLaws(*args, **kw)
        else:
            law = UniverseLaws(**kw)
        self.w.add(op["new"], law)
        return law

    def op_probe_wl(self, op):
        """
        Read the whitelist the way a rule check would: subscript look-ups, also
        of pairs that are not listed (those raise KeyError, or give whatever the
        mapping gives) -- reading must not change what is read.
        """
        law = self.g(op["L"])
        seen = []
        for outer, inner in op["pairs"]:
            try:
                seen.append(law.edge_whitelist[C.ALL_CLASSES[outer]][C.ALL_CLASSES[inner]])
            except (KeyError, TypeError):
                seen.append("<absent>")
        return seen

    def op_set_rule(self, op):
        val = op["val"]
        if op["rule"] == "edge_whitelist":
            val = decode_whitelist(val)
        setattr(self.g(op["L"]), op["rule"], val)


class St:
    def __init__(self, cfg):
        self.cfg = cfg
        self.ex = LawExec(World())
        self.namer = gen.Namer()
        self.stats = collections.Counter()
        self.snap = {}
        self.view = gen.View({})
        self.rules = {}  # law label -> expected rule values
        self.pending = None
        self.mutations = 0


class C19(engine.Property):
    id = "C19"
    title = "a universe and its laws always point at each other"
    max_steps = 60
    nontermination_is_violation = True
    budget = {
        "quick": {"runs": 120000, "wall_cap_s": 600},
        "thorough": {"runs": 5000000, "wall_cap_s": 5400},
    }
    rule = (
        "one evaluation = one seeded history of Universe.laws / UniverseLaws.applies_to "
        "assignments and universe constructions over 1-4 universes and 1-4 law sets, with "
        "the bijection invariant, the assignment's own target and the rule read-backs "
        "checked after every step; distinct = distinct event-log digest; non-trivial = "
        "the binding changed at least 3 times"
    )
    assumptions = [
        "single-threaded use",
        "law sets are constructed without applies_to= (only the stated operations)",
        "what a displaced universe / law set ends up with is not dictated beyond the invariant",
        "any exception from an assignment is a violation ('every such assignment succeeds')",
        "histories are sampled, not enumerated",
    ]
    expected_probes = [
        "assign-laws-after-None",
        "assign-law-set-in-use-elsewhere",
        "applies_to-moved-to-other-universe",
        "applies_to-set-None",
        "laws-set-None",
        "construct-with-laws-in-use",
        "set-rule-attempt",
        "reassign-same",
        "falsy-universe-released",
        "ill-typed-assignment-on-bound-pair",
        "laws-constructed-positionally",
        "construction-fed-by-failing-iterable",
        "whitelist-preset-dict-reused",
        "laws-assigned-during-construction-through-attributes",
        "whitelist-read-by-subscript",
        "universe-nested-in-another",
        "call-with-warnings-as-errors",
        "assignment-through-item-syntax",
    ]

    def make_config(self, rng):
        cfg = self._make_config(rng)
        # an ill-typed assignment ends a history: keep it rare
        w = cfg["weights"]
        if "bad_assign" in w and rng.random() < 0.6:
            del w["bad_assign"]
        elif "bad_assign" in w:
            w["bad_assign"] = 1
            for k in w:
                if k != "bad_assign":
                    w[k] *= 3
        cfg["p_w_error"] = rng.choice([0.0, 0.0, 0.15])
        return cfg

    def _make_config(self, rng):
        return {
            "steps": gen.geometric_steps(rng, 3, 50, 12) if not (deep_tier() and rng.random() < 0.25) else gen.geometric_steps(rng, 30, 170, 60),
            "deep_bounds": True,
            "nu": rng.randint(1, 4),
            "nl": rng.randint(1, 4),
            "max_u": 6,
            "max_l": 6,
            "p_none": rng.choice([0.1, 0.2, 0.35]),
            "p_whitelist": rng.choice([0.0, 0.3, 0.6]),
            "nv": rng.choice([0, 0, 1, 2]),
            # FalsyUniverse: a container-like subclass, falsy while it has no members
            "universe_classes": rng.choice(
                [
                    ["Universe"],
                    ["Universe", "SubUniverse"],
                    ["Universe", "FalsyUniverse"],
                    ["FalsyUniverse"],
                    # equal-but-distinct universes: the property is worded with `is`
                    ["EqUniverse"],
                    ["EqUniverse", "Universe"],
                ]
            ),
            "weights": gen.swarm_weights(
                rng,
                ["set_laws", "set_applies", "mk_universe", "mk_universe_laws", "mk_laws", "set_rule", "bad_assign", "probe_wl", "nest"],
                always=("set_laws", "set_applies"),
            ),
        }

    def start(self, cfg):
        return St(cfg)

    # -- generation -------------------------------------------------------------------
    def _mk_laws(self, rng, cfg, st):
        op = {"op": "mk_laws", "new": st.namer.new("L"), "kw": {}}
        for r in RULES:
            if rng.random() < 0.5:
                op["kw"][r] = rng.random() < 0.5
                if rng.random() < 0.15:
                    # "exactly what was passed": a caller may pass something
                    # other than a bool for a switch
                    op["kw"][r] = rng.choice([None, 0, 1, "yes", "", 2.5])
                    st.stats["probe:rule-switch-given-a-value-that-is-not-a-bool"] += 1
        if rng.random() < cfg["p_whitelist"]:
            spec = []
            for _ in range(rng.randint(0, 3)):
                inner = [
                    [rng.choice(WL_NAMES[:3]), rng.choice(WL_NAMES[3:])]
                    for _ in range(rng.randint(0, 3))
                ]
                spec.append([rng.choice(WL_NAMES[:3]), inner])
            op["wl"] = spec
            if rng.random() < 0.5:
                op["wl_share"] = rng.choice(["p0", "p1"])
                st.stats["probe:whitelist-preset-dict-reused"] += 1
            if rng.random() < 0.3:
                op["wl_inner"] = rng.choice(["defaultdict", "ordered"])
        if rng.random() < 0.3:
            # pass a prefix of the arguments positionally: every parameter up to
            # the last one must then be given
            n = rng.randint(1, 5)
            order = ["edge_whitelist"] + list(RULES)
            for name in order[:n]:
                if name == "edge_whitelist":
                    op.setdefault("wl", None) if "wl" in op else op["kw"].setdefault("edge_whitelist", None)
                else:
                    op["kw"].setdefault(name, rng.random() < 0.5)
            op["positional"] = n
        return op

    def next_op(self, rng, cfg, st):
        op = self._next_op(rng, cfg, st)
        if op is not None and cfg.get("p_w_error") and rng.random() < cfg["p_w_error"]:
            # the application runs with warnings turned into errors
            op["w_error"] = True
            st.stats["probe:call-with-warnings-as-errors"] += 1
        return op

    def _next_op(self, rng, cfg, st):
        if getattr(st, "ended", False):
            return None
        if st.pending is None:
            st.pending = []
            for _ in range(cfg["nu"]):
                st.pending.append(
                    {"op": "mk_universe", "new": st.namer.new("u"), "cls": rng.choice(cfg["universe_classes"])}
                )
            for _ in range(cfg["nl"]):
                st.pending.append(self._mk_laws(rng, cfg, st))
            for _ in range(cfg.get("nv", 0)):
                st.pending.append({"op": "mk_vertex", "new": st.namer.new("v"), "cls": "Vertex", "tag": 0})
        if st.pending:
            return st.pending.pop(0)
        us = st.view.universes()
        ls = st.view.laws()
        for _ in range(20):
            kind = gen.weighted_choice(rng, cfg["weights"])
            if kind == "set_laws" and us:
                u = rng.choice(us)
                L = None if rng.random() < cfg["p_none"] else rng.choice(ls)
                op = {"op": "set_laws", "u": u, "L": L}
                if rng.random() < 0.2:
                    op["via"] = "item"
                return op
            if kind == "set_applies" and ls:
                L = rng.choice(ls)
                u = None if rng.random() < cfg["p_none"] else rng.choice(us)
                op = {"op": "set_applies", "L": L, "u": u}
                if rng.random() < 0.2:
                    op["via"] = "item"
                return op
            if kind == "mk_universe" and len(us) < cfg["max_u"]:
                op = {"op": "mk_universe", "new": st.namer.new("u"), "cls": rng.choice(cfg["universe_classes"])}
                if ls and rng.random() < 0.15:
                    op["attr_laws"] = rng.choice(ls)
                return op
            if kind == "mk_universe_laws" and len(us) < cfg["max_u"] and ls:
                op = {
                    "op": "mk_universe",
                    "new": st.namer.new("u"),
                    "cls": rng.choice(cfg["universe_classes"]),
                    "laws": rng.choice(ls),
                }
                vs = st.view.plain_vertices()
                if vs and rng.random() < 0.5:
                    op["vertices"] = [rng.choice(vs) for _ in range(rng.randint(1, 2))]
                    if rng.random() < 0.5:
                        # the vertices iterable fails part-way: the construction
                        # raises, the half-built universe stays reachable
                        op["as"] = f"gen_raises:{rng.randint(1, len(op['vertices']))}"
                return op
            if kind == "mk_laws" and len(ls) < cfg["max_l"]:
                return self._mk_laws(rng, cfg, st)
            if kind == "bad_assign" and ls and us:
                if rng.random() < 0.5:
                    return {"op": "set_applies", "L": rng.choice(ls), "u": {"bad": "obj"}}
                return {"op": "set_laws", "u": rng.choice(us), "L": {"bad": "obj"}}
            if kind == "nest" and len(us) >= 2:
                # universes as members of universes: whose laws a universe has
                # must not depend on where it is nested
                a, b = rng.sample(us, 2)
                st.stats["probe:universe-nested-in-another"] += 1
                return {"op": rng.choice(["uni_add", "uni_add", "uni_remove"]), "u": a, "v": b}
            if kind == "probe_wl" and ls:
                pairs = [[rng.choice(WL_NAMES[:3]), rng.choice(WL_NAMES[:3] + WL_NAMES[3:])] for _ in range(rng.randint(1, 4))]
                st.stats["probe:whitelist-read-by-subscript"] += 1
                return {"op": "probe_wl", "L": rng.choice(ls), "pairs": pairs}
            if kind == "set_rule" and ls:
                rule = rng.choice(RULES + ("edge_whitelist",))
                val = (
                    [["Vertex", [["Vertex", "DirectedEdge"]]]]
                    if rule == "edge_whitelist"
                    else rng.random() < 0.5
                )
                return {"op": "set_rule", "L": rng.choice(ls), "rule": rule, "val": val}
        return None

    # -- execution and oracle -----------------------------------------------------------
    def _probes(self, st, op):
        s = st.stats
        snap = st.snap
        k = op["op"]
        if isinstance(op.get("L"), dict) or isinstance(op.get("u"), dict):
            good = op.get("u") if isinstance(op.get("L"), dict) else op.get("L")
            d = snap.get(good, {})
            if d.get("laws") is not None or d.get("applies_to") is not None:
                s["probe:ill-typed-assignment-on-bound-pair"] += 1
            s["fault:failing-call"] += 1
            return
        if k == "mk_laws" and op.get("positional"):
            s["probe:laws-constructed-positionally"] += 1
        if op.get("via") == "item":
            s["probe:assignment-through-item-syntax"] += 1
        if k == "set_laws" and op["u"] in snap:
            cur = snap[op["u"]].get("laws")
            if op["L"] is None:
                s["probe:laws-set-None"] += 1
            else:
                if cur is None:
                    s["probe:assign-laws-after-None"] += 1
                if cur == op["L"]:
                    s["probe:reassign-same"] += 1
                holder = snap.get(op["L"], {}).get("applies_to")
                if holder is not None and holder != op["u"]:
                    s["probe:assign-law-set-in-use-elsewhere"] += 1
        elif k == "set_applies" and op["L"] in snap:
            cur = snap[op["L"]].get("applies_to")
            if cur is not None and cur != op["u"] and snap.get(cur, {}).get("cls") == "FalsyUniverse":
                s["probe:falsy-universe-released"] += 1
            if op["u"] is None:
                s["probe:applies_to-set-None"] += 1
            elif cur is not None and cur != op["u"]:
                s["probe:applies_to-moved-to-other-universe"] += 1
            elif cur == op["u"]:
                s["probe:reassign-same"] += 1
        elif k == "mk_universe" and op.get("laws"):
            if snap.get(op["laws"], {}).get("applies_to") is not None:
                s["probe:construct-with-laws-in-use"] += 1
        elif k == "set_rule":
            s["probe:set-rule-attempt"] += 1

    def execute(self, st, op):
        if getattr(st, "ended", False):
            # an ill-typed assignment ends the history: what the library does
            # with the junk it may have stored is outside the property
            return None, None
        if isinstance(op.get("L"), dict) or isinstance(op.get("u"), dict):
            st.ended_after_this = True
        self._probes(st, op)
        before = st.snap
        out = st.ex.apply(op)
        if out is None:
            return None, None
        st.stats["op:" + op["op"]] += 1
        w = st.ex.w
        if op["op"] == "mk_laws" and "exc" not in out:
            # only what was PASSED must read back; the defaults are not the
            # property's business (they must merely never change afterwards:
            # the first reading is remembered below)
            exp = dict(op.get("kw") or {})
            if "wl" in op:
                exp["edge_whitelist"] = normal_whitelist_spec(op["wl"])
            st.rules[op["new"]] = exp
        snap = st.ex.w.snapshot()
        # law sets discovered through u.laws are default law sets
        for lab, d in snap.items():
            if d["k"] == "L" and lab not in st.rules:
                st.rules[lab] = {}
        st.snap = snap
        st.view = gen.View(snap)
        if snap != before:
            st.mutations += 1

        k = op["op"]
        bad = isinstance(op.get("L"), dict) or isinstance(op.get("u"), dict)
        if str(op.get("as", "")).startswith("gen_raises"):
            s = st.stats
            s["probe:construction-fed-by-failing-iterable"] += 1
            s["fault:argument-iterable-raises"] += 1
            k = "failing-construction"
        elif bad:
            # an ill-typed value: whether and how the call fails is not the
            # property's business; the bijection over everything known is
            k = "bad-assignment"
        elif op.get("attr_laws") is not None:
            # `laws` assigned through attributes= while the universe is being
            # built: the library may refuse that or honour it -- either way the
            # bijection below must hold over everything reachable afterwards
            st.stats["probe:laws-assigned-during-construction-through-attributes"] += 1
            k = "construction-with-laws-attribute"
            if "exc" not in out and snap[op["new"]]["laws"] != op["attr_laws"]:
                # accepted, yet the universe ended up with other laws: then the
                # law set must not have been touched at all
                if snap.get(op["attr_laws"]) != before.get(op["attr_laws"]):
                    return out, engine.viol(
                        "C19/laws-attribute-half-honoured",
                        {"op": op, "laws_of_new_universe": snap[op["new"]]["laws"],
                         "law_set_now": snap.get(op["attr_laws"]), "law_set_before": before.get(op["attr_laws"])},
                    )
        if k in ("set_laws", "set_applies", "mk_universe", "mk_laws"):
            if "exc" in out:
                return out, engine.viol(
                    f"C19/assignment-raised:{k}:{out['exc']}",
                    {"op": op, "before": _binding(before)},
                )
        if k == "set_laws" and snap[op["u"]]["laws"] != op["L"]:
            return out, engine.viol(
                "C19/own-target:laws-not-what-was-assigned",
                {"op": op, "laws": snap[op["u"]]["laws"]},
            )
        if k == "set_applies" and snap[op["L"]]["applies_to"] != op["u"]:
            return out, engine.viol(
                "C19/own-target:applies_to-not-what-was-assigned",
                {"op": op, "applies_to": snap[op["L"]]["applies_to"]},
            )
        if k == "mk_universe" and op.get("laws") is not None:
            if snap[op["new"]]["laws"] != op["laws"]:
                return out, engine.viol(
                    "C19/own-target:constructed-universe-has-other-laws",
                    {"op": op, "laws": snap[op["new"]]["laws"]},
                )
        if k == "mk_universe" and op.get("laws") is None:
            if snap[op["new"]]["laws"] is None:
                return out, engine.viol(
                    "C19/constructed-universe-without-laws", {"op": op}
                )
        if k == "set_rule":
            if "exc" not in out:
                return out, engine.viol(
                    "C19/rule-attribute-assignment-accepted", {"op": op}
                )
            if snap != before:
                return out, engine.viol(
                    "C19/rule-attribute-assignment-changed-state", {"op": op}
                )

        # the bijection, over everything known
        for lab, d in snap.items():
            if "!" in d:
                return out, engine.viol("C19/accessor-raised", {"obj": lab, "exc": d["!"]})
            if d["k"] == "u" and d["laws"] is not None and not str(d["laws"]).startswith("?"):
                ld = snap.get(d["laws"])
                if ld is None or ld.get("applies_to") != lab:
                    return out, engine.viol(
                        "C19/universe-keeps-laws-that-apply-elsewhere",
                        {
                            "universe": lab,
                            "laws": d["laws"],
                            "applies_to": None if ld is None else ld.get("applies_to"),
                            "op": op,
                        },
                    )
            if d["k"] == "L" and d["applies_to"] is not None and not str(d["applies_to"]).startswith("?"):
                ud = snap.get(d["applies_to"])
                if ud is None or ud.get("laws") != lab:
                    return out, engine.viol(
                        "C19/laws-apply-to-universe-that-has-other-laws",
                        {
                            "laws": lab,
                            "applies_to": d["applies_to"],
                            "its_laws": None if ud is None else ud.get("laws"),
                            "op": op,
                        },
                    )
        if getattr(st, "ended_after_this", False):
            st.ended = True
        # rule read-backs
        for lab, exp in st.rules.items():
            law = w.objs.get(lab)
            if law is None:
                continue
            try:
                got = {r: getattr(law, r) for r in RULES}
                got["edge_whitelist"] = read_whitelist(law)
            except Exception as exc:  # pylint: disable=broad-except
                return out, engine.viol(
                    "C19/rule-read-raised", {"laws": lab, "exc": type(exc).__name__}
                )
            for r, val in got.items():
                # first reading of a rule that was not passed: remember it
                exp.setdefault(r, val)
            if got != exp or any(type(got[r]) is not type(exp[r]) for r in RULES):
                return out, engine.viol(
                    "C19/rule-attribute-read-back-differs",
                    {"laws": lab, "expected": exp, "got": got},
                )
        return out, None

    def state_hash(self, st):
        return engine.h64(engine.jdump(_binding(st.snap)))

    def nontrivial(self, st):
        return st.mutations >= 3


def _binding(snap):
    return {
        lab: (d.get("laws") if d["k"] == "u" else d.get("applies_to"))
        for lab, d in snap.items()
        if d["k"] in "uL"
    }


PROPERTY = C19()
