"""
Parallel runner, verdicts, replay files, known findings, evidence.

Exit codes:  0 every explored run held (KNOWN-FINDING lines allowed)
             1 a VIOLATION line was printed
             2 harness error (never with a VIOLATION line, never 0)
"""

import collections
import hashlib
import json
import multiprocessing
import multiprocessing.connection
import os
import re
import signal
import subprocess
import sys
import time
import traceback

import egsim
from egsim import engine, seams, shrink
from egsim.ops import Watchdog

VERIF = egsim.VERIF_ROOT
DEFAULT_SEED = 20261004
RUN_WALL_S = 40  # one run on a <=10-vertex world never legitimately takes this long
MP = multiprocessing.get_context("fork")


def workers_default():
    try:
        n = int(os.environ.get("VERIF_WORKERS", "0"))
    except ValueError:
        n = 0
    return n or min(16, os.cpu_count() or 1)


# ----------------------------------------------------------------- chunk worker
def _alarm(signum, frame):
    raise Watchdog()


def _one_run(prop, run_seed):
    signal.signal(signal.SIGALRM, _alarm)
    signal.setitimer(signal.ITIMER_REAL, getattr(prop, "run_wall_s", RUN_WALL_S))
    try:
        return engine.run_generated(prop, run_seed)
    finally:
        signal.setitimer(signal.ITIMER_REAL, 0)


def chunk_main(pid, seed, lo, hi, sample_mod, conn, want_samples, all_digests=False, fresh_after_violation=True):
    """
    Runs indices [lo, hi) in this (freshly forked) process.  A run that ends
    in a violation may have left process-wide state behind (a library that is
    wrong can be wrong about module-level tables too): the rest of the chunk
    is then handed back (`resume`) to be run in another fresh process, so
    that every reported history stands on its own.
    """
    out = {
        "lo": lo,
        "hi": hi,
        "runs": 0,
        "steps": 0,
        "stats": collections.Counter(),
        "states": set(),
        "transitions": set(),
        "nontrivial": set(),
        "violations": [],
        "samples": [],
        "digests": {},
        "error": None,
    }
    try:
        import faulthandler

        faulthandler.enable()
        prop = engine.get_property(pid)
        if getattr(prop, "uses_restart", False):
            from egsim import restart

            # before this process has built a single edgegraph object
            restart.start_zygote()
        for i in range(lo, hi):
            run_seed = seams.derive_seed(pid, seed, i)
            try:
                res = _one_run(prop, run_seed)
            except Watchdog:
                if getattr(prop, "nontermination_is_violation", False):
                    out["violations"].append(
                        {
                            "index": i,
                            "run_seed": run_seed,
                            "cfg": None,
                            "ops": [],
                            "violation": {
                                "kind": f"{pid}/nontermination",
                                "detail": "run exceeded its wall budget",
                                "step": -1,
                            },
                        }
                    )
                    continue
                raise egsim.HarnessError(
                    f"run {i} (seed {run_seed}) exceeded {RUN_WALL_S}s"
                ) from None
            out["runs"] += 1
            out["steps"] += res.steps
            out["stats"].update(res.stats)
            if sample_mod == 1:
                out["states"].update(res.states)
            else:
                out["states"].update(
                    s for s in res.states if s % sample_mod == 0
                )
            if sample_mod == 1:
                out["transitions"].update(res.transitions)
            else:
                out["transitions"].update(t for t in res.transitions if t % sample_mod == 0)
            if res.nontrivial:
                out["nontrivial"].add(int(res.digest[:16], 16))
            if i - lo < 2 or all_digests:
                out["digests"][str(i)] = res.digest
            if want_samples and len(out["samples"]) < want_samples:
                out["samples"].append(
                    {"run_index": i, "config": res.cfg, "ops": res.ops[:40]}
                )
            if res.violation is not None and len(out["violations"]) < 50:
                out["violations"].append(
                    {
                        "index": i,
                        "run_seed": run_seed,
                        "cfg": res.cfg,
                        "ops": res.ops,
                        "violation": res.violation,
                        # no earlier run of this process ended in a violation
                        "clean_process": not out["violations"],
                    }
                )
            if res.violation is not None and fresh_after_violation and i + 1 < hi:
                out["resume"] = [i + 1, hi]
                out["hi"] = i + 1
                out["stats"]["note:process-retired-after-a-violating-run"] += 1
                break
            if res.violation is not None and res.violation["kind"].endswith("/nontermination"):
                # whatever did not come back may have left this process in a
                # state (a held lock, say) in which nothing comes back any more:
                # the rest of this chunk is not run here
                out["stats"]["note:chunk-cut-short-after-nontermination"] += 1
                break
    except BaseException as exc:  # pylint: disable=broad-except
        out["error"] = "".join(
            traceback.format_exception(type(exc), exc, exc.__traceback__)
        )
    finally:
        try:
            from egsim import restart

            restart.shutdown_zygote()
        except Exception:  # pylint: disable=broad-except
            pass
    out["stats"] = dict(out["stats"])
    out["states"] = sorted(out["states"])
    out["transitions"] = sorted(out["transitions"])
    out["nontrivial"] = sorted(out["nontrivial"])
    try:
        conn.send_bytes(json.dumps(out).encode())
    finally:
        conn.close()


def run_parallel(pid, seed, nruns, workers, sample_mod, wall_cap_s, chunk=None, all_digests=False):
    """-> merged dict.  Results are merged in index order."""
    if chunk is None:
        chunk = max(1, min(500, nruns // (workers * 4) or 1))
    todo = [(lo, min(nruns, lo + chunk)) for lo in range(0, nruns, chunk)]
    todo.reverse()
    live = {}
    done = []
    t0 = time.time()
    timed_out = False
    retired = 0
    while todo or live:
        while todo and len(live) < workers:
            lo, hi = todo.pop()
            parent, child = MP.Pipe(duplex=False)
            p = MP.Process(
                target=chunk_main,
                # on a tree that fails everywhere a process per run would
                # never finish: after enough retirements chunks run through
                args=(pid, seed, lo, hi, sample_mod, child, 3 if lo == 0 else 0, all_digests, retired < 48),
            )
            p.start()
            child.close()
            live[parent] = (p, lo, hi)
        ready = multiprocessing.connection.wait(list(live), timeout=1.0)
        for conn in ready:
            p, lo, hi = live.pop(conn)
            try:
                data = json.loads(conn.recv_bytes().decode())
            except (EOFError, OSError):
                data = {
                    "lo": lo,
                    "hi": hi,
                    "error": f"worker for runs [{lo},{hi}) died without a result",
                }
            conn.close()
            p.join()
            done.append(data)
            if data.get("resume"):
                retired += 1
                todo.append(tuple(data["resume"]))
        if time.time() - t0 > wall_cap_s:
            timed_out = True
            for conn, (p, lo, hi) in live.items():
                p.kill()
                p.join()
            todo = []
            break
    done.sort(key=lambda d: d["lo"])
    merged = {
        "runs": 0,
        "steps": 0,
        "stats": collections.Counter(),
        "states": set(),
        "transitions": set(),
        "nontrivial": set(),
        "violations": [],
        "samples": [],
        "digests": {},
        "errors": [],
        "timed_out": timed_out,
        "planned": nruns,
    }
    for d in done:
        if d.get("error"):
            merged["errors"].append(d["error"])
            continue
        merged["runs"] += d["runs"]
        merged["steps"] += d["steps"]
        merged["stats"].update(d["stats"])
        merged["states"].update(d["states"])
        merged["transitions"].update(d.get("transitions", []))
        merged["nontrivial"].update(d["nontrivial"])
        merged["violations"].extend(d["violations"])
        merged["samples"].extend(d["samples"])
        merged["digests"].update(d["digests"])
    # histories from a process in which nothing had gone wrong before come first
    merged["violations"].sort(key=lambda v: (not v.get("clean_process", True), v["index"]))
    return merged


# ----------------------------------------------------------------- known findings
def load_known_findings():
    path = os.path.join(VERIF, "known_findings.json")
    if not os.path.exists(path):
        return {"open": [], "fixed": []}
    with open(path) as f:
        return json.load(f)


def _op_matches(pattern, op):
    return all(op.get(k) == v for k, v in pattern.items())


def match_known(finding, pid, kind, ops):
    if finding.get("property") != pid or finding.get("kind") != kind:
        return False
    for pat in finding.get("ops_contain", []):
        if not any(_op_matches(pat, op) for op in ops):
            return False
    mx = finding.get("max_ops")
    if mx is not None and len(ops) > mx:
        return False
    return True


# ----------------------------------------------------------------- replay files
def slug(s):
    return re.sub(r"[^A-Za-z0-9]+", "-", s).strip("-")[:60]


def write_replay(pid, seed, v, ops, original_len, tests):
    d = os.path.join(VERIF, "replays", pid)
    os.makedirs(d, exist_ok=True)
    body = {
        "property": pid,
        "seed": seed,
        "run_index": v["index"],
        "run_seed": v["run_seed"],
        "config": v["cfg"],
        "ops": ops,
        "violation": v["violation"],
        "original_length": original_len,
        "shrink_replays": tests,
        # a history found under `python -O` (assert statements removed) is replayed under it
        "python_optimize": sys.flags.optimize,
    }
    h = hashlib.sha256(engine.jdump([v["cfg"], ops]).encode()).hexdigest()[:10]
    path = os.path.join(d, f"{slug(v['violation']['kind'])}-{h}.json")
    with open(path, "w") as f:
        json.dump(body, f, indent=1, sort_keys=True)
    return path


def _shrink_child(pid, v, conn):
    try:
        prop = engine.get_property(pid)
        signal.signal(signal.SIGALRM, _alarm)
        signal.setitimer(signal.ITIMER_REAL, 600)
        ops, tests, ok = shrink.shrink(
            prop, v["cfg"], v["ops"], v["violation"]["kind"], run_seed=v["run_seed"]
        )
        res = engine.run_replay(prop, v["cfg"], ops, v["run_seed"])
        conn.send_bytes(
            json.dumps(
                {"ops": ops, "tests": tests, "ok": ok, "violation": res.violation}
            ).encode()
        )
    except BaseException as exc:  # pylint: disable=broad-except
        conn.send_bytes(
            json.dumps(
                {
                    "error": "".join(
                        traceback.format_exception(
                            type(exc), exc, exc.__traceback__
                        )
                    )
                }
            ).encode()
        )
    finally:
        try:
            from egsim import restart

            restart.shutdown_zygote()
        except Exception:  # pylint: disable=broad-except
            pass
        conn.close()


def minimise(pid, v):
    """Shrink in a forked child (keeps this process clean; contains hangs)."""
    if not v["ops"] or v["cfg"] is None or v["violation"]["kind"].endswith("/nontermination"):
        # (a history that ends in a call which never returns is not shrunk:
        # every candidate would have to be waited out)
        return v["ops"], 0, v["violation"]
    parent, child = MP.Pipe(duplex=False)
    p = MP.Process(target=_shrink_child, args=(pid, v, child))
    p.start()
    child.close()
    if parent.poll(700):
        data = json.loads(parent.recv_bytes().decode())
    else:
        data = {"error": "shrinker timed out"}
    p.kill()
    p.join()
    if "error" in data or not data.get("ok") or data.get("violation") is None:
        # fall back to the unshrunk history
        return v["ops"], 0, v["violation"]
    return data["ops"], data["tests"], data["violation"]


def replay_fresh(pid, path):
    """Re-execute a replay file in a fresh interpreter.  -> (rc, stdout)"""
    env = dict(os.environ)
    env["PYTHONHASHSEED"] = "0"
    cp = subprocess.run(
        [sys.executable, "-B", os.path.join(VERIF, "check"), pid, "--replay", path],
        capture_output=True,
        text=True,
        env=env,
        timeout=600,
        check=False,
    )
    return cp.returncode, cp.stdout + cp.stderr


def do_replay(pid, path):
    prop = engine.get_property(pid)
    with open(path) as f:
        body = json.load(f)
    if body.get("python_optimize") and not sys.flags.optimize:
        cp = subprocess.run(
            [sys.executable, "-O", "-B", os.path.join(VERIF, "check"), pid, "--replay", path],
            check=False,
        )
        return cp.returncode
    signal.signal(signal.SIGALRM, _alarm)
    signal.setitimer(signal.ITIMER_REAL, getattr(prop, "run_wall_s", 300))
    try:
        res = engine.run_replay(prop, body["config"], body["ops"], body.get("run_seed", 0))
    except Watchdog:
        if getattr(prop, "nontermination_is_violation", False):
            print(f"REPRODUCED kind={pid}/nontermination")
            print(f"VIOLATION property={pid} replay={path}")
            return 1
        raise
    finally:
        signal.setitimer(signal.ITIMER_REAL, 0)
        from egsim import restart

        restart.shutdown_zygote()
    want = body["violation"]["kind"]
    if res.violation is not None:
        print(
            f"REPRODUCED kind={res.violation['kind']} step={res.violation.get('step')} "
            f"detail={engine.jdump(res.violation.get('detail'))[:600]}"
        )
        if res.violation["kind"] != want:
            print(f"NOTE: replay file recorded kind={want}")
        print(f"VIOLATION property={pid} replay={path}")
        return 1
    print(f"NOT-REPRODUCED property={pid} replay={path} (recorded kind={want})")
    return 0


# ----------------------------------------------------------------- pinned regressions
def _regress_child(pid, paths, conn):
    out = []
    try:
        prop = engine.get_property(pid)
        for path in paths:
            with open(path) as f:
                body = json.load(f)
            signal.signal(signal.SIGALRM, _alarm)
            signal.setitimer(signal.ITIMER_REAL, 120)
            try:
                res = engine.run_replay(
                    prop, body["config"], body["ops"], body.get("run_seed", 0)
                )
                v = res.violation
            except Watchdog:
                v = {"kind": f"{pid}/nontermination", "detail": None, "step": -1}
            finally:
                signal.setitimer(signal.ITIMER_REAL, 0)
            out.append({"path": path, "violation": v, "steps": len(body["ops"])})
        conn.send_bytes(json.dumps({"results": out}).encode())
    except BaseException as exc:  # pylint: disable=broad-except
        conn.send_bytes(
            json.dumps(
                {
                    "error": "".join(
                        traceback.format_exception(type(exc), exc, exc.__traceback__)
                    )
                }
            ).encode()
        )
    finally:
        try:
            from egsim import restart

            restart.shutdown_zygote()
        except Exception:  # pylint: disable=broad-except
            pass
        conn.close()


def run_regressions(pid):
    """
    Replays of every minimised history that once exposed a (since repaired)
    defect: they must not reproduce.  -> (results, error)
    """
    d = os.path.join(VERIF, "regress", pid)
    if not os.path.isdir(d):
        return [], None
    paths = sorted(
        os.path.join(d, f) for f in os.listdir(d) if f.endswith(".json")
    )
    if not paths:
        return [], None
    parent, child = MP.Pipe(duplex=False)
    p = MP.Process(target=_regress_child, args=(pid, paths, child))
    p.start()
    child.close()
    if parent.poll(900):
        data = json.loads(parent.recv_bytes().decode())
    else:
        data = {"error": "regression replays timed out"}
    p.kill()
    p.join()
    if "error" in data:
        return [], data["error"]
    return data["results"], None


# ----------------------------------------------------------------- the check
def run_check(pid, tier, seed, nruns=None, workers=None):
    t0 = time.time()
    prop = engine.get_property(pid)
    budget = prop.budget[tier]
    if nruns is None:
        nruns = int(os.environ.get("VERIF_RUNS", "0")) or budget["runs"]
    if nruns != budget["runs"] and not os.environ.get("VERIF_EVIDENCE_DIR"):
        # an ad-hoc run with its own run count does not replace the evidence
        # of the registered command
        os.environ["VERIF_EVIDENCE_DIR"] = os.path.join(VERIF, "evidence", "adhoc")
    workers = workers or workers_default()
    sample_mod = 1 if tier == "quick" else 16
    os.environ["EGSIM_TIER"] = tier
    print(f"VERIF_SEED={seed} property={pid} tier={tier} runs={nruns} workers={workers}")
    sys.stdout.flush()
    merged = run_parallel(
        pid, seed, nruns, workers, sample_mod, budget["wall_cap_s"],
        chunk=budget.get("chunk"),
    )

    # configuration dimension: a tenth of the budget again in an interpreter
    # started with -O (assert statements stripped), where code that does real
    # work inside an assert silently stops doing it
    opt_lines, opt_viol, opt_runs = [], 0, 0
    if not sys.flags.optimize and not os.environ.get("EGSIM_SUBRUN"):
        opt_runs = max(200, nruns // 10)
        env = dict(os.environ)
        env["EGSIM_SUBRUN"] = "1"
        env["VERIF_EVIDENCE_DIR"] = os.path.join(VERIF, "evidence", "adhoc", "optimized")
        try:
            cp = subprocess.run(
                [sys.executable, "-O", "-B", os.path.join(VERIF, "check"), pid, "--tier", tier,
                 "--runs", str(opt_runs), "--workers", str(workers)],
                capture_output=True, text=True, env=env, timeout=budget["wall_cap_s"], check=False,
            )
            for ln in cp.stdout.splitlines():
                if ln.startswith("violation kind="):
                    opt_lines.append("[python -O] " + ln)
                elif ln.startswith("VIOLATION property="):
                    opt_lines.append(ln)
                    opt_viol += 1
                elif ln.startswith("KNOWN-FINDING"):
                    opt_lines.append(ln)
            if cp.returncode not in (0, 1):
                merged["errors"].append("python -O sub-run: " + (cp.stderr or cp.stdout)[-600:])
        except subprocess.TimeoutExpired:
            merged["errors"].append("python -O sub-run timed out")
    merged["optimized_runs"] = opt_runs

    # determinism spot check: the first runs again, in this tier's own process tree
    rerun = run_parallel(pid, seed, min(nruns, 4), 1, 1, 300, chunk=4)
    mismatch = [
        k
        for k, dg in rerun["digests"].items()
        if k in merged["digests"] and merged["digests"][k] != dg
    ]

    known = load_known_findings()
    lines = []
    n_viol = 0
    n_known = 0
    lines.extend(opt_lines)
    n_viol += opt_viol
    regress, rerr = run_regressions(pid)
    merged["regress"] = regress
    for r in regress:
        if r["violation"] is not None:
            n_viol += 1
            lines.append(
                f"violation kind={r['violation']['kind']} (pinned history of a repaired "
                f"defect reproduces) detail={engine.jdump(r['violation'].get('detail'))[:400]}"
            )
            lines.append(f"VIOLATION property={pid} replay={r['path']}")
    by_kind = collections.OrderedDict()
    for v in merged["violations"]:
        by_kind.setdefault(v["violation"]["kind"], v)
    reported = []
    harness_errors = list(merged["errors"])
    if rerr:
        harness_errors.append(rerr)
    if mismatch:
        harness_errors.append(f"non-deterministic digests for run indices {mismatch}")
    if merged["timed_out"]:
        harness_errors.append(
            f"wall cap {budget['wall_cap_s']}s hit after {merged['runs']} of {nruns} runs"
        )
    tainted_unreproduced = []
    for kind, v in list(by_kind.items())[:6]:
        ops, tests, viol = minimise(pid, v)
        v2 = dict(v)
        v2["violation"] = viol
        path = write_replay(pid, seed, v2, ops, len(v["ops"]), tests)
        if ops:
            rc, outp = replay_fresh(pid, path)
            if rc != 1 and len(v["ops"]) > len(ops):
                # the minimised history is fragile: fall back to the full
                # recorded one before giving up
                path_full = write_replay(pid, seed, v, v["ops"], len(v["ops"]), 0)
                rc_full, _ = replay_fresh(pid, path_full)
                if rc_full == 1:
                    rc, path, ops, viol = 1, path_full, v["ops"], v["violation"]
                    lines.append("note: the minimised history did not reproduce in a fresh interpreter; reporting the full recorded history")
            if rc != 1:
                msg = (
                    f"replay of {path} in a fresh interpreter did not reproduce "
                    f"(rc={rc}): {outp[-400:]}"
                )
                if v.get("clean_process", True):
                    harness_errors.append(msg)
                else:
                    # recorded in a process in which an earlier run had already
                    # ended in a violation: what that run left behind is not
                    # part of this history
                    tainted_unreproduced.append(msg)
                continue
        hit = None
        for f in known.get("open", []):
            if match_known(f, pid, viol["kind"], ops):
                hit = f
                break
        if hit is not None:
            n_known += 1
            lines.append(f"KNOWN-FINDING: property={pid} {hit['what']}")
        else:
            n_viol += 1
            lines.append(
                f"violation kind={viol['kind']} run_index={v['index']} "
                f"len={len(ops)} (from {len(v['ops'])}) detail="
                f"{engine.jdump(viol.get('detail'))[:400]}"
            )
            lines.append(f"VIOLATION property={pid} replay={path}")
        reported.append({"kind": viol["kind"], "replay": path, "ops": ops})

    if tainted_unreproduced:
        if n_viol:
            lines.append(
                f"note: {len(tainted_unreproduced)} further kind(s) of violation were seen only in processes in which an "
                "earlier run had already failed, and do not reproduce on their own; not reported"
            )
        else:
            harness_errors.extend(tainted_unreproduced)
    # pinned scenarios for open findings that the generator avoids
    pinned = getattr(prop, "pinned_known", None)
    if pinned is not None:
        for f in known.get("open", []):
            if f.get("property") == pid and f.get("pinned"):
                lines.extend(pinned(f))

    wall = time.time() - t0
    write_evidence(prop, tier, seed, merged, wall, n_viol, n_known, reported, harness_errors)
    seen_lines = set()
    for ln in lines:
        if ln.startswith("VIOLATION") and ln in seen_lines:
            continue  # the same minimised history found again under python -O
        seen_lines.add(ln)
        print(ln)
    print(
        f"property={pid} tier={tier} runs={merged['runs']} steps={merged['steps']} "
        f"distinct_states={len(merged['states'])}{'' if sample_mod == 1 else ' (1-in-%d hash sample)' % sample_mod} "
        f"violations={n_viol} known={n_known} wall={wall:.1f}s"
        + (f" violating_runs={len(merged['violations'])}{'+' if len(merged['violations']) >= 50 else ''}" if merged["violations"] else "")
    )
    if harness_errors:
        for e in harness_errors[:3]:
            print("HARNESS-ERROR:", e.strip()[-1500:], file=sys.stderr)
        if len(harness_errors) > 3:
            print(f"HARNESS-ERROR: ... and {len(harness_errors) - 3} more", file=sys.stderr)
        if n_viol:
            return 1
        return 2
    return 1 if n_viol else 0


def write_evidence(prop, tier, seed, merged, wall, n_viol, n_known, reported, harness_errors):
    stats = merged["stats"]
    groups = collections.defaultdict(dict)
    for k, n in sorted(stats.items()):
        if ":" in k:
            g, name = k.split(":", 1)
            groups[g][name] = n
        else:
            groups["misc"][k] = n
    runs = merged["runs"]
    cov = {
        "evaluations": runs,
        "distinct_nontrivial": len(merged["nontrivial"]),
        "rule": prop.rule,
        "samples": merged["samples"][:3] or [{"note": "no run completed"}],
        "steps": merged["steps"],
        "simulated_time": f"{merged['steps']} logical steps (edgegraph has no clock; DESIGN 3.11)",
        "runs_per_hour": int(runs / wall * 3600) if wall > 0 else 0,
        "seeds_per_hour": int(runs / wall * 3600) if wall > 0 else 0,
        "operations_by_kind": groups.get("op", {}),
        "faults_fired_by_kind": groups.get("fault", {}),
        "failing_calls": groups.get("failing-call", {}),
        "restarts_by_mode": groups.get("restart", {}),
        "reach_probes": groups.get("probe", {}),
        "probes_stuck_at_zero": [
            p for p in getattr(prop, "expected_probes", []) if not groups.get("probe", {}).get(p)
        ],
        "other_counters": groups.get("misc", {}),
        "cache_counters": groups.get("cache", {}),
        "components": {
            "real": [
                "all of edgegraph from the working tree",
                "dill, pickle, pyvis, CPython",
            ],
            "stubbed": [
                "uuid.uuid4 (seeded stream)",
                "global random state (seeded per run)",
                "user callbacks (the simulator's own)",
            ],
        },
        "repo_root": egsim.REPO_ROOT,
        "runs_repeated_under_python_-O": merged.get("optimized_runs", 0),
        "planned_runs": merged["planned"],
        "pinned_regression_histories_replayed": len(merged.get("regress", [])),
        "pinned_regression_histories_reproducing": sum(
            1 for r in merged.get("regress", []) if r["violation"] is not None
        ),
        "completed": (not merged["timed_out"]) and not harness_errors,
        "known_findings_reported": n_known,
        "violations_reported": reported[:6],
        "harness_errors": [e[-500:] for e in harness_errors],
        "exhaustive": False,
    }
    if tier == "quick":
        cov["transitions"] = len(merged["transitions"])
        cov["transitions_measure"] = "distinct (state before, operation kind, state after) triples"
    else:
        cov["transitions_in_1_of_16_hash_sample"] = len(merged["transitions"])
    if tier == "quick":
        cov["states"] = len(merged["states"])
        cov["states_measure"] = "distinct sha256 of the normalised world snapshot after each step"
    else:
        cov["states_in_1_of_16_hash_sample"] = len(merged["states"])
        cov["states_measure"] = (
            "distinct sha256 of the normalised world snapshot after each step, "
            "counted on the 1-in-16 sub-sample of hash space (memory bound)"
        )
    extra = getattr(prop, "extra_coverage", None)
    if extra is not None:
        cov.update(extra(merged))
    ev = {
        "property_id": prop.id,
        "tier": tier,
        "seed": seed,
        "level": prop.level,
        "coverage": cov,
        "assumptions": prop.assumptions,
        "wall_s": round(wall, 2),
        "violations": n_viol,
    }
    d = os.environ.get("VERIF_EVIDENCE_DIR") or os.path.join(VERIF, "evidence")
    os.makedirs(d, exist_ok=True)
    tmp = os.path.join(d, f".{prop.id}.json.tmp")
    with open(tmp, "w") as f:
        json.dump(ev, f, indent=1, sort_keys=True, default=str)
    os.replace(tmp, os.path.join(d, f"{prop.id}.json"))
    if tier == "thorough" and not os.environ.get("VERIF_EVIDENCE_DIR"):
        # keep the last thorough result next to the (quick) file the harness rewrites
        td = os.path.join(d, "thorough")
        os.makedirs(td, exist_ok=True)
        with open(os.path.join(td, f"{prop.id}.json"), "w") as f:
            json.dump(ev, f, indent=1, sort_keys=True, default=str)
