#!/bin/sh
# Runs every quick check under several seeds; prints one line per run and every line that smells of trouble.
cd "$(dirname "$0")/.."
first=${1:-1}; last=${2:-8}
export VERIF_EVIDENCE_DIR=/dev/shm/egsim-sweep-ev
for seed in $(seq $first $last); do
  for p in C01 C02 C03 C05 C10 C11 C12 C13 C17 C18 C19 C20; do
    out=$(VERIF_SEED=$seed ./check $p 2>&1); rc=$?
    echo "seed=$seed rc=$rc $(echo "$out" | tail -1 | cut -c1-130)"
    if [ $rc -ne 0 ]; then echo "$out" | grep -v "^\[" | tail -25; fi
  done
done
rm -rf /dev/shm/egsim-sweep-ev
