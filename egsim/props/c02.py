"""
C02 -- universe membership is symmetric, ordered and duplicate-free after
every history (DESIGN 4/C02).

Workload: the four membership calls from both sides and the two constructors
(`universes=` / `vertices=`, with repeated entries) over vertices and universes
that are themselves members of others and of themselves; removals of
non-members are generated on purpose (the "failing call" fault).
Oracle after every step: symmetry, no duplicate, `Universe.vertices` equals the
model's insertion-ordered list; a removal of a non-member must raise and leave
the whole world exactly as it was.
"""

import os

from egsim import engine, gen
from egsim.props import common

KINDS = gen.UNIVERSE_MUTATORS + ["mk_vertex", "mk_edge"]


def check_membership(snap):
    for lab, d in snap.items():
        if "!" in d:
            return engine.viol("C02/accessor-raised", {"obj": lab, "exc": d["!"]})
    for lab, d in snap.items():
        if d["k"] in "vu":
            unis = d["universes"]
            if len(set(unis)) != len(unis):
                return engine.viol(
                    "C02/duplicate-universe-in-vertex",
                    {"vertex": lab, "universes": unis},
                )
            for u in unis:
                ud = snap.get(u)
                if ud is None or ud["k"] != "u" or lab not in ud["members"]:
                    return engine.viol(
                        "C02/asym:vertex-lists-universe-but-universe-omits-vertex",
                        {"vertex": lab, "universe": u},
                    )
        if d["k"] == "u":
            mem = d["members"]
            if len(set(mem)) != len(mem):
                return engine.viol(
                    "C02/duplicate-member-in-universe",
                    {"universe": lab, "members": mem},
                )
            for v in mem:
                vd = snap.get(v)
                if vd is None or lab not in vd.get("universes", []):
                    return engine.viol(
                        "C02/asym:universe-lists-vertex-but-vertex-omits-universe",
                        {"universe": lab, "vertex": v},
                    )
    return None


class C02(common.ModelProperty):
    id = "C02"
    title = "universe membership symmetric, ordered, duplicate-free"
    max_steps = 80
    budget = {
        "quick": {"runs": 120000, "wall_cap_s": 600},
        "thorough": {"runs": 4000000, "wall_cap_s": 5400},
    }
    rule = (
        "one evaluation = one seeded history of membership calls from the vertex side, "
        "the universe side and the two constructors, over nested / self-containing "
        "universes, checked against the list model after every step; distinct = distinct "
        "event-log digest; non-trivial = membership changed at least 3 times"
    )
    assumptions = [
        "single-threaded use",
        "observation through public accessors only (Universe.vertices, Vertex.universes)",
        "any exception class counts as 'raises' for a non-member removal",
        "histories are sampled, not enumerated",
    ]
    expected_probes = [
        "universe-made-member-of-itself",
        "removal-of-non-member",
        "re-add-after-removal",
        "constructor-with-repeated-entries",
        "universe-member-of-other-universe",
        "admission-rule-override-rejected-a-vertex",
        "override-raised-after-recording-the-membership",
        "removal-override-admitted-the-vertex-again",
        "subclass-with-late-state-built-with-universes",
        "universe-with-thousands-of-members",
        "most-members-of-a-large-universe-leave",
        "caching-flag-flipped-between-structural-calls",
    ]

    def make_config(self, rng):
        cfg = {}
        cfg["steps"] = gen.geometric_steps(rng, 3, 60, 16)
        if common.deep_tier() and rng.random() < 0.25:
            cfg["deep_bounds"] = True
            cfg["steps"] = gen.geometric_steps(rng, 30, 200, 70)
        cfg["nv"] = rng.randint(1, 6)
        cfg["nu"] = rng.randint(1, 3)
        cfg["max_vertices"] = cfg["nv"] + cfg["nu"] + rng.choice([0, 1, 3])
        cfg["max_universes"] = cfg["nu"] + rng.choice([0, 1, 2])
        cfg["p_alias"] = rng.choice([0.05, 0.15, 0.3, 0.5])
        cfg["p_none"] = rng.choice([0.0, 0.2, 0.4])  # half-built edges (an end still None) on members
        cfg["max_links"] = 4
        cfg["nested_universes"] = rng.random() < 0.75
        cfg["vertex_classes"] = rng.choice(
            [["Vertex"], ["Vertex", "SubVertex"], ["Vertex", "JournalVertex"], ["JournalVertex", "SubVertex"]]
        )
        cfg["universe_classes"] = rng.choice(
            [
                ["Universe"],
                ["Universe", "SubUniverse"],
                ["Universe", "FalsyUniverse"],
                # a subclass whose add_vertex override calls back into the library
                ["Universe", "RejectingUniverse"],
                ["RejectingUniverse", "FalsyUniverse"],
                # a subclass whose override raises after super().add_vertex() for some vertices
                ["Universe", "RaisingUniverse"],
                # a subclass whose remove_vertex override admits some vertices again at once
                ["Universe", "SanctuaryUniverse"],
                ["SanctuaryUniverse", "SubUniverse"],
                # a subclass with a container protocol (`in`, iteration) of its own
                ["Universe", "RegionUniverse"],
                ["RegionUniverse"],
            ]
        )
        cfg["edge_classes"] = ["DirectedEdge"]
        cfg["multi"] = False
        cfg["restarts"] = rng.random() < 0.3
        cfg["weights"] = gen.swarm_weights(rng, KINDS, always=("uni_add",))
        cfg["p_w_error"] = rng.choice([0.0, 0.0, 0.15])  # calls made with warnings turned into errors
        if rng.random() < float(os.environ.get("EGSIM_C02_CROWD_P", "0.0005" if common.deep_tier() else "0.0015")):
            # "over every pool": one universe with thousands of members (code
            # paths that depend on size), then a short ordinary history
            cfg["crowd"] = rng.choice([1100, 2100, 4200])
            cfg["steps"] = rng.randint(4, 10)
            cfg["restarts"] = False
            cfg.pop("deep_bounds", None)
            cfg["max_vertices"] = cfg["crowd"] + cfg["nv"] + 4
            cfg["weights"]["v_add_uni"] = max(3, cfg["weights"].get("v_add_uni", 0))
            cfg["weights"]["mk_vertex_unis"] = max(2, cfg["weights"].get("mk_vertex_unis", 0))
        elif rng.random() < 0.012:
            # a universe with dozens to a few hundred members most of which
            # then leave (code paths that depend on how many have left)
            cfg["crowd"] = rng.choice([40, 70, 130, 260])
            cfg["exodus"] = True
            cfg["steps"] = rng.randint(5, 14)
            cfg["restarts"] = False
            cfg.pop("deep_bounds", None)
            cfg["max_vertices"] = cfg["crowd"] + cfg["nv"] + 4
            cfg["weights"]["uni_remove"] = max(4, cfg["weights"].get("uni_remove", 0))
            cfg["weights"]["v_remove_uni"] = max(2, cfg["weights"].get("v_remove_uni", 0))
        if cfg.get("crowd") and "exodus" not in cfg:
            cfg["exodus"] = rng.random() < 0.5
        # the application flips Vertex.NEIGHBOR_CACHING between two calls
        # (membership has nothing to do with the flag: it must hold either way)
        cfg["p_flag"] = rng.choice([0.0, 0.0, 0.05, 0.15])
        return cfg

    def next_op(self, rng, cfg, st):
        if cfg.get("crowd") and not getattr(st, "crowd_made", False) and st.pending_setup == []:
            st.crowd_made = True
            if cfg["crowd"] >= 1000:
                st.stats["probe:universe-with-thousands-of-members"] += 1
            st.crowd_label = st.namer.new("u")
            return {"op": "mk_crowd", "new": st.crowd_label, "cls": "Universe", "n": cfg["crowd"], "tag": 0}
        if cfg.get("exodus") and getattr(st, "crowd_made", False) and not getattr(st, "exodus_made", False) and rng.random() < 0.5:
            st.exodus_made = True
            st.stats["probe:most-members-of-a-large-universe-leave"] += 1
            return {
                "op": "exodus", "u": st.crowd_label,
                "pattern": rng.choice(["even", "odd", "front", "back", "thirds"]),
                "pct": rng.choice([51, 60, 80, 95]),
                "rev": rng.random() < 0.3,
                "side": rng.choice(["u", "u", "v"]),
            }
        return super().next_op(rng, cfg, st)

    refusal_name = "construction-refused-before-anything-was-recorded"

    def may_be_rejected(self, st, op):
        # a construction that ends in an exception out of a user override
        # (JournalVertex is not ready for calls while it is being built) is
        # acceptable only if nothing at all was recorded
        return op["op"] == "mk_vertex" and op.get("cls") == "JournalVertex" and bool(op.get("universes"))

    def invariants(self, snap):
        return check_membership(snap)

    def canon(self, state):
        # the property orders Universe.vertices only; the order of a vertex's
        # own `universes` list is C03's business, not this property's
        out = {}
        for lab, d in state.items():
            if "universes" in d:
                d = dict(d)
                d["universes"] = sorted(d["universes"])
            out[lab] = d
        return out

    def execute(self, st, op):
        s = st.stats
        k = op["op"]
        objs = st.model.objs
        # constructions that would fail half-way through user code are not
        # part of these histories (the model has no notion of a half-built object)
        if k == "mk_vertex" and op.get("tag") == 4 and any(
            objs.get(u, {}).get("cls") == "RaisingUniverse" for u in op.get("universes") or []
        ):
            return None, None
        if k == "mk_universe" and op.get("cls") == "RaisingUniverse" and any(
            st.model.tags.get(v) == 4 for v in op.get("vertices") or []
        ):
            return None, None
        if k in ("uni_add", "v_add_uni") and op["u"] in objs and op["v"] in objs and st.model.raises_after(op["u"], op["v"]):
            s["probe:override-raised-after-recording-the-membership"] += 1
            s["fault:exception-out-of-subclass-override"] += 1
        if k in ("uni_add", "v_add_uni") and op["u"] in st.model.objs and op["v"] in st.model.objs:
            if st.model.rejects(op["u"], op["v"]):
                s["probe:admission-rule-override-rejected-a-vertex"] += 1
                s["fault:reentrant-call-from-subclass-override"] += 1
        if k == "mk_vertex" and op.get("tag") == 5 and any(
            st.model.objs.get(u, {}).get("cls") == "RejectingUniverse" for u in op.get("universes") or []
        ):
            s["probe:admission-rule-override-rejected-a-vertex"] += 1
            s["fault:reentrant-call-from-subclass-override"] += 1
        if k in ("uni_add", "v_add_uni"):
            if op["u"] == op["v"]:
                s["probe:universe-made-member-of-itself"] += 1
            elif st.snap.get(op["v"], {}).get("k") == "u":
                s["probe:universe-member-of-other-universe"] += 1
            key = (op["u"], op["v"])
            if key in getattr(st, "removed_pairs", ()):
                s["probe:re-add-after-removal"] += 1
        if k in ("uni_remove", "v_remove_uni") and op["u"] in objs and op["v"] in objs:
            if st.model.readmits(op["u"], op["v"]) and op["v"] in objs[op["u"]].get("members", []):
                s["probe:removal-override-admitted-the-vertex-again"] += 1
                s["fault:reentrant-call-from-subclass-override"] += 1
        if k in ("uni_remove", "v_remove_uni"):
            if op["u"] in st.snap and op["v"] not in st.snap[op["u"]].get("members", []):
                s["probe:removal-of-non-member"] += 1
            else:
                if not hasattr(st, "removed_pairs"):
                    st.removed_pairs = set()
                st.removed_pairs.add((op["u"], op["v"]))
        if k == "mk_vertex" and op.get("cls") == "JournalVertex" and op.get("universes"):
            s["probe:subclass-with-late-state-built-with-universes"] += 1
        if k in ("mk_vertex", "mk_universe"):
            seq = op.get("universes") or op.get("vertices") or []
            if len(set(seq)) != len(seq):
                s["probe:constructor-with-repeated-entries"] += 1
        return super().execute(st, op)

    def state_kind(self, op, expected, diff):
        from egsim import model as M

        if isinstance(expected, M.Raises) and op["op"] in ("uni_remove", "v_remove_uni"):
            return "C02/non-member-removal-changed-state"
        if isinstance(expected, M.Raises):
            return f"C02/state-differs-from-model-after-a-failing-call:{op['op']}"
        if diff and diff.get("field") == "members":
            return "C02/universe-vertices-order-or-content"
        return f"C02/state-differs-from-model:{op['op']}"

    def outcome_kind(self, op, expected, why):
        from egsim import model as M

        if isinstance(expected, M.Raises) and op["op"] in ("uni_remove", "v_remove_uni"):
            return "C02/non-member-removal-did-not-raise"
        if isinstance(expected, M.Raises):
            return f"C02/failing-override-swallowed:{op['op']}"
        return f"C02/raised-unexpectedly:{op['op']}"


PROPERTY = C02()
