"""Entry point of the fresh interpreter on the far side of an exec restart."""

import json
import os
import pickle
import sys

sys.dont_write_bytecode = True
sys.path.insert(0, os.path.dirname(os.path.dirname(os.path.abspath(__file__))))


def main():
    import faulthandler

    faulthandler.enable()
    faulthandler.dump_traceback_later(110, exit=True)
    with open(sys.argv[1], "rb") as f:
        payload = pickle.load(f)
    import egsim  # noqa: F401  (path bootstrap)
    from egsim import restart

    out = restart._resume(payload)  # pylint: disable=protected-access
    sys.stdout.write("\n===RESULT===\n" + json.dumps(out))
    sys.stdout.flush()


if __name__ == "__main__":
    main()
