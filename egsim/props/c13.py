"""
C13 -- read-only operations never change the graph, even when a user callback
raises (DESIGN 4/C13).  Level: fault enumeration.

Per sampled (world state, entry point, settings, cache flag) -- one
`enumerate` step of a run:
  1. deep snapshot S0 (structure through public accessors, the *set* of
     instance attribute names of every object, the values of public ones);
  2. fault-free call with counting callbacks: result R, N_c invocations of
     each callback c; snapshot must equal S0;
  3. for each callback c and EVERY k in 1..N_c (all of them while N_c <= 32;
     beyond that the first 8, the last 8 and 16 seeded positions): the call
     again with c raising InjectedFault at its k-th invocation; it may end any
     way it likes; snapshot must equal S0;
  4. after each faulted call, the call again with the same, now well-behaved,
     callbacks: the result must equal R.
World states come from seeded histories of public mutators.
"""

import copy
import operator
import random
import re

import egsim  # noqa: F401
from egsim import classes as C
from egsim import engine, gen, ops as O, seams
from egsim.seams import InjectedFault
from egsim.props import common, c05
from egsim.world import public_attrs

from edgegraph.traversal import helpers
from edgegraph.output import plaintext, plantuml, nrpickler
from edgegraph.output import pyvis as eg_pyvis

ENTRY_KINDS = [
    "neighbors",
    "find_links",
    "trav",
    "basic_render",
    "plantuml",
    "pyvis",
    "pyvis_custom",
    "search",
    "dumps",
]


class CB:
    """A counting callback that raises at its k-th invocation when told to."""

    def __init__(self, name, fn):
        self.name = name
        self.fn = fn
        self.count = 0
        self.fault_at = None
        self.fault_type = InjectedFault
        self.fired = False

    def reset(self, fault_at=None, fault_type=InjectedFault):
        self.count = 0
        self.fault_at = fault_at
        self.fault_type = fault_type
        self.fired = False

    def __call__(self, *args):
        self.count += 1
        if self.fault_at is not None and self.count == self.fault_at:
            self.fired = True
            raise self.fault_type(f"{self.name}#{self.count}")
        return self.fn(*args)


def positions(n, op_key):
    if n <= 32:
        return list(range(1, n + 1))
    r = random.Random(op_key)
    mid = r.sample(range(9, n - 7), min(16, n - 16))
    return sorted(set(list(range(1, 9)) + list(range(n - 7, n + 1)) + mid))


class Harness:
    """Builds the call for an entry, with a fresh set of callbacks."""

    def __init__(self, ex, entry):
        self.ex = ex
        self.entry = entry
        w = ex.w
        self.lab = w.lab

    def tag(self, v):
        return getattr(v, "sim_tag", 0) if v is not None else 0

    def make_callbacks(self):
        e = self.entry
        k = e["kind"]
        cbs = {}
        if k == "neighbors" and e.get("ff"):
            cbs["filterfunc"] = CB("filterfunc", C.nb_filter(e["ff"]))
        if k == "find_links" and e.get("ff"):
            cbs["filterfunc"] = CB("filterfunc", C.FL_FILTERS[e["ff"]])
        if k == "trav":
            if e.get("ffv"):
                cbs["ff_via"] = CB("ff_via", C.nb_filter(e["ffv"]))
            if e.get("ffr"):
                cbs["ff_result"] = CB("ff_result", C.RESULT_FILTERS[e["ffr"]])
        if k == "basic_render":
            if e.get("rfunc"):
                cbs["rfunc"] = CB("rfunc", lambda v: f"<{self.lab(v)}>")
            if e.get("sort"):
                cbs["sort"] = CB("sort", lambda v: (self.tag(v), str(self.lab(v))))
        if k == "plantuml":
            cbs["user_render_func"] = CB(
                "user_render_func",
                lambda v, options: f"object {self.lab(v)}\n",
            )
        if k in ("pyvis", "pyvis_custom"):
            if e.get("rvfunc") and e.get("reenter"):
                # a label function that renders ANOTHER universe (one that may
                # share vertices with this one) for the first vertex it is
                # asked about: user code re-entering the renderer in mid-call
                state = {"done": False, "n": 0}

                def rv(v, _state=state, _u2=e["reenter"], _at=e.get("reenter_at", 1)):
                    _state["n"] += 1
                    if not _state["done"] and _state["n"] >= _at:
                        _state["done"] = True
                        eg_pyvis.make_pyvis_net(self.ex.g(_u2))
                    return str(self.lab(v))

                cb = CB("rvfunc", rv)
                _reset = cb.reset

                def reset(fault_at=None, fault_type=InjectedFault, _state=state, _reset=_reset):
                    _state["done"] = False
                    _state["n"] = 0
                    _reset(fault_at, fault_type)

                cb.reset = reset
                cbs["rvfunc"] = cb
            elif e.get("rvfunc"):
                cbs["rvfunc"] = CB("rvfunc", lambda v: str(self.lab(v)))
            if e.get("refunc"):
                cbs["refunc"] = CB("refunc", lambda l: str(self.lab(l)))
        return cbs

    def open_traversal(self, cbs):
        """The lazy form of a traversal entry, not yet advanced."""
        e = self.entry
        kw = {}
        if "dir" in e:
            kw["direction_sensitive"] = O.DIRS[e["dir"]]
        if "unk" in e:
            kw["unknown_handling"] = O.UNKS[e["unk"]]
        if "ff_via" in cbs:
            kw["ff_via"] = cbs["ff_via"]
        if "ff_result" in cbs:
            kw["ff_result"] = cbs["ff_result"]
        return O.TRAVS[e["fn"]](self.ex.g(e.get("u")), self.ex.g(e["s"]), **kw)

    def call(self, cbs):
        """-> normalised outcome ({"ret":..} | {"exc":..})"""
        e = self.entry
        k = e["kind"]
        ex = self.ex
        try:
            if k == "neighbors":
                kw = {}
                if "dir" in e:
                    kw["direction_sensitive"] = O.DIRS[e["dir"]]
                if "unk" in e:
                    kw["unknown_handling"] = O.UNKS[e["unk"]]
                if "filterfunc" in cbs:
                    kw["filterfunc"] = cbs["filterfunc"]
                ret = ex.norm(list(helpers.neighbors(ex.g(e["v"]), **kw)))
            elif k == "find_links":
                kw = {}
                if "ds" in e:
                    kw["direction_sensitive"] = bool(e["ds"])
                if "unk" in e:
                    kw["unknown_handling"] = O.UNKS[e["unk"]]
                if "filterfunc" in cbs:
                    kw["filterfunc"] = cbs["filterfunc"]
                ret = ex.norm(set(helpers.find_links(ex.g(e["a"]), ex.g(e["b"]), **kw)))
            elif k == "trav":
                kw = {}
                if "dir" in e:
                    kw["direction_sensitive"] = O.DIRS[e["dir"]]
                if "unk" in e:
                    kw["unknown_handling"] = O.UNKS[e["unk"]]
                if "ff_via" in cbs:
                    kw["ff_via"] = cbs["ff_via"]
                if "ff_result" in cbs:
                    kw["ff_result"] = cbs["ff_result"]
                ret = ex.norm(list(O.TRAVS[e["fn"]](ex.g(e.get("u")), ex.g(e["s"]), **kw)))
            elif k == "search":
                ret = ex.norm(
                    O.SEARCHES[e["fn"]](ex.g(e.get("u")), ex.g(e["s"]), e["attr"], e["val"])
                )
            elif k == "basic_render":
                ret = plaintext.basic_render(
                    ex.g(e["u"]), rfunc=cbs.get("rfunc"), sort=cbs.get("sort")
                )
                ret = self.scrub(ret)
            elif k == "plantuml":
                # one options object per set of callbacks: the caller that
                # repeats a call after a fault repeats it with the options it has
                options = cbs.get("#options")
                if options is None:
                    options = copy.deepcopy(plantuml.PLANTUML_RENDER_OPTIONS)
                    from edgegraph.structure import Vertex

                    vopts = dict(options[Vertex])
                    if e.get("user"):
                        vopts["user_render_func"] = cbs["user_render_func"]
                    options[Vertex] = vopts
                    # the default ".+" would print every attribute dir() finds,
                    # class-level tables and bound-method addresses included:
                    # process-global state, not a function of the graph
                    vopts["show_attrs"] = ["^sim_tag$", "^colour$"]
                    if e.get("title"):
                        vopts["title_format"] = "{sim_tag}"
                    cbs["#options"] = options
                ret = plantuml.render_to_plantuml_src(ex.g(e["u"]), options)
                ret = self.scrub(ret)
                if isinstance(ret, str):
                    ret = sorted(ret.split("\n"))
            elif k in ("pyvis", "pyvis_custom"):
                fn = eg_pyvis.make_pyvis_net if k == "pyvis" else eg_pyvis.pyvis_render_customizable
                if k == "pyvis" and e.get("netkw"):
                    # display settings the user keeps on the universe itself
                    net = fn(
                        ex.g(e["u"]), cbs.get("rvfunc"), cbs.get("refunc"),
                        network_kwargs=ex.g(e["u"]).display,
                    )
                else:
                    net = fn(ex.g(e["u"]), cbs.get("rvfunc"), cbs.get("refunc"))
                ret = self.norm_net(net)
            elif k == "dumps":
                data = nrpickler.dumps(ex.g(e["root"]), protocol=e.get("proto", 4))
                ret = {"bytes": len(data) > 0}
            else:
                raise egsim.HarnessError(f"unknown entry {k}")
            return {"ret": ret}
        except O._Missing:  # pylint: disable=protected-access
            raise
        except Exception as exc:  # pylint: disable=broad-except
            if k == "plantuml" and not isinstance(exc, InjectedFault):
                # links are rendered in the iteration order of an
                # identity-hashed set, i.e. in memory-address order: WHICH
                # ill-formed link raises first is not a function of the graph
                return {"exc": "<raised>"}
            return {"exc": type(exc).__name__}

    def scrub(self, text):
        """Addresses -> labels, so that results compare across calls/processes."""
        if not isinstance(text, str):
            return text
        w = self.ex.w
        # the PlantUML banner carries the wall-clock time at which the module
        # was imported: a clock read, constant within a process but not across
        # processes -- kept out of logs and comparisons
        note = getattr(plantuml, "PLANTUML_AUTOGEN_NOTE", None)
        if isinstance(note, str) and note:
            text = text.replace(note, "\n<autogen-note>\n")
        # longest first, so that one address can never be rewritten as the
        # prefix of another
        pairs = []
        for lab, obj in w.objs.items():
            pairs.append((repr(obj), lab))
            pairs.append((hex(id(obj)), lab))
        for needle, lab in sorted(pairs, key=lambda p: -len(p[0])):
            text = text.replace(needle, f"@{lab}")
        # whatever address is left belongs to something that is not a graph
        # object (the repr of an iterator kept as an attribute value)
        text = re.sub(r"0x[0-9a-fA-F]{6,}", "@addr", text)
        return text

    def norm_net(self, net):
        nodes = sorted(
            (n.get("id"), self.scrub(str(n.get("label")))) for n in net.nodes
        )
        edges = sorted(
            (
                e.get("from"),
                e.get("to"),
                str(e.get("arrows")),
                str(e.get("title")),
            )
            for e in net.edges
        )
        return {"nodes": [list(n) for n in nodes], "edges": [list(x) for x in edges]}


def _attr_norm(ex, val):
    if hasattr(val, "__next__"):
        # how much a one-shot iterator still holds, read without consuming it
        return {"iterator-remaining": operator.length_hint(val, -1)}
    return ex.norm(val)


def deep_snapshot(ex, flag=False):
    """
    Everything observable: structure through public accessors, the set of
    instance attribute names and the public values of every object, and --
    under the cache flag of the triple -- what neighbors() answers for every
    vertex in every direction (a read-only call must not change what later
    reads return, e.g. by reordering a memoised list).
    """
    w = ex.w
    seams.set_flag(False)
    snap = w.snapshot()
    for lab, d in snap.items():
        obj = w.objs[lab]
        d["names"] = sorted(vars(obj))
        d["attrs"] = {k: _attr_norm(ex, v) for k, v in sorted(public_attrs(obj).items())}
    seams.set_flag(flag)
    try:
        for lab, d in snap.items():
            if d["k"] not in "vu":
                continue
            obj = w.objs[lab]
            answers = []
            for dname, unk in (
                ("fwd", helpers.LNK_UNKNOWN_ERROR),  # the defaults, as renderers and searches call it
                ("fwd", helpers.LNK_UNKNOWN_NEIGHBOR),
                ("any", helpers.LNK_UNKNOWN_NEIGHBOR),
                ("back", helpers.LNK_UNKNOWN_NEIGHBOR),
            ):
                try:
                    answers.append(
                        ex.norm(
                            list(
                                helpers.neighbors(
                                    obj,
                                    direction_sensitive=O.DIRS[dname],
                                    unknown_handling=unk,
                                )
                            )
                        )
                    )
                except Exception as exc:  # pylint: disable=broad-except
                    answers.append("!" + type(exc).__name__)
            d["neighbors"] = answers
    finally:
        seams.set_flag(False)
    return snap


class St(common.HistState):
    def __init__(self, cfg):
        super().__init__(cfg)
        self.gen = gen.StructGen(cfg)
        self.pending = None
        self.enumerated = 0
        self.faulted = 0
        self.with_callbacks = 0
        self.last_triple = None


class C13(engine.Property):
    id = "C13"
    level = "fault_enumeration"
    title = "read-only operations never change the graph, even when a callback raises"
    max_steps = 70
    nontermination_is_violation = True
    run_wall_s = 120
    budget = {
        "quick": {"runs": 20000, "wall_cap_s": 900},
        "thorough": {"runs": 800000, "wall_cap_s": 5400},
    }
    rule = (
        "one evaluation = one seeded run: a world grown by a history of public mutators, then "
        "several (entry point, settings, cache flag) triples on it; for each triple a "
        "fault-free call with counting callbacks and then, for every callback and EVERY "
        "invocation index k (exhaustive while N<=32), the call with InjectedFault raised at "
        "that invocation, the deep snapshot compared before/after each call and a clean "
        "re-run compared with the fault-free result; 'states' counts distinct (world, entry, "
        "settings, flag) triples; non-trivial run = at least one triple whose callbacks were "
        "invoked and faulted"
    )
    assumptions = [
        "single-threaded use",
        "faults are exceptions raised by the user's callback at one of its invocations "
        "(not asynchronous exceptions inside library code)",
        "private attribute values are not compared (the memo legitimately fills during a cached "
        "read); private attribute names are",
        "world states and (entry, settings) triples are sampled; fault positions within a triple "
        "are enumerated exhaustively (N<=32) or first/last 8 + 16 seeded positions",
    ]
    expected_probes = [
        "lazy-traversal-stepped-with-the-graph-inspected-between-steps",
        "lazy-traversal-abandoned-half-way",
        "label-callback-re-enters-the-renderer",
        "mutator-cut-short-by-a-user-override-before-the-reads",
        "user-attribute-with-two-leading-underscores",
        "one-shot-iterator-as-attribute-value",
        "entry:neighbors",
        "entry:find_links",
        "entry:trav",
        "entry:basic_render",
        "entry:plantuml",
        "entry:pyvis",
        "entry:pyvis_custom",
        "entry:search",
        "entry:dumps",
        "callback-faulted:filterfunc",
        "callback-faulted:ff_via",
        "callback-faulted:ff_result",
        "callback-faulted:rfunc",
        "callback-faulted:sort",
        "callback-faulted:user_render_func",
        "callback-faulted:rvfunc",
        "callback-faulted:refunc",
        "cache-on",
        "cache-off",
        "fault-free-call-raised",
        "link-leaves-universe",
        "self-loop-in-universe",
        "network-kwargs-kept-on-the-universe",
        "warm-memo-before-the-call",
        "cold-memo-before-the-call",
    ]

    def make_config(self, rng):
        cfg = common.std_struct_config(
            rng,
            kinds=c05.MUTATORS + ["uni_add", "uni_add", "v_add_uni", "uni_remove"],
            always=("mk_edge", "uni_add"),
            multi_p=0.0,
            lo=8,
            hi=60,
            mean=22,
        )
        cfg["nu"] = rng.randint(1, 3)
        cfg["p_none"] = rng.choice([0.0, 0.0, 0.0, 0.04])
        cfg["grow"] = rng.randint(4, 20)
        cfg["steps"] = cfg["nv"] + cfg["nu"] + cfg["grow"] + rng.randint(3, 12)
        cfg["nested_universes"] = rng.random() < 0.3
        cfg["universes_as_ends"] = rng.random() < 0.2
        cfg["entry_weights"] = gen.swarm_weights(rng, ENTRY_KINDS, p_enable=0.8)
        cfg["nb_filters"] = [None, "accept", "reject", "even", "dironly"]
        cfg["fl_filters"] = [None, "accept", "reject", "dironly"]
        cfg["result_filters"] = [None, "accept", "even", "reject"]
        cfg["p_more_mutation"] = rng.choice([0.0, 0.15, 0.3])
        cfg["p_odd_attrs"] = rng.choice([0.0, 0.3, 0.6])
        if rng.random() < 0.15:
            # an edge class whose add_vertex override raises for some vertices:
            # Vertex.add_to_link is cut short and the vertex keeps listing an
            # edge that does not name it -- a reachable state read-only calls
            # must leave as it is, too
            cfg["edge_classes"] = sorted(set(cfg["edge_classes"]) | {"BrittleEdge"})
            cfg["weights"]["add_to_link"] = max(cfg["weights"].get("add_to_link", 0), 4)
        return cfg

    def start(self, cfg):
        return St(cfg)

    # -- generation --------------------------------------------------------------------
    def next_op(self, rng, cfg, st):
        if st.pending is None:
            st.pending = gen.setup_ops(rng, cfg, st.namer)
            st.grow_left = cfg["grow"]
        if st.pending:
            return st.pending.pop(0)
        if st.grow_left > 0 or rng.random() < cfg["p_more_mutation"]:
            st.grow_left -= 1
            for _ in range(10):
                kind = gen.weighted_choice(rng, cfg["weights"])
                if kind == "adj_dict":
                    op = gen.g_adj_dict(st.gen, rng, st.view, st.namer)
                elif kind == "adj_matrix":
                    op = gen.g_adj_matrix(st.gen, rng, st.view, st.namer)
                else:
                    op = st.gen.draw(rng, st.view, st.namer, kind)
                if op is not None:
                    return op
        for _ in range(20):
            entry = self._entry(rng, cfg, st)
            if entry is not None:
                return {"op": "enumerate", "entry": entry, "cache": rng.random() < 0.5, "warm": rng.random() < 0.5}
        return None

    def _entry(self, rng, cfg, st):
        view = st.view
        kind = gen.weighted_choice(rng, cfg["entry_weights"])
        us = [u for u in view.universes() if view.snap[u].get("members")]
        if kind == "neighbors":
            op = st.gen.g_neighbors(rng, view, st.namer)
            if op is None:
                return None
            if "ff" not in op and rng.random() < 0.7:
                op["ff"] = rng.choice(["accept", "even", "dironly", "reject"])
        elif kind == "find_links":
            # prefer a vertex that lists a link which does not name it
            odd = [
                lab
                for lab, d in view.snap.items()
                if any(lab not in view.snap.get(l, {}).get("ends", ()) for l in d.get("links", ()))
            ]
            op = st.gen.g_find_links(rng, view, st.namer, focus=odd)
            if op is None:
                return None
            if "ff" not in op and rng.random() < 0.7:
                op["ff"] = rng.choice(["accept", "dironly", "reject"])
        elif kind == "trav":
            op = st.gen.g_trav(rng, view, st.namer)
            if op is None:
                return None
            # prefer a universe that is not closed under its members' links,
            # entered at a member that has a neighbour outside it
            leaky = []
            for u in us:
                members = view.snap[u].get("members", [])
                for m in members:
                    outside = [x for l in view.links_of(m) for x in view.ends(l) if x is not None and x != m and x not in members]
                    if outside:
                        leaky.append((u, m))
                        break
            if leaky and rng.random() < 0.4:
                op["u"], op["s"] = rng.choice(leaky)
                if rng.random() < 0.6:
                    op["fn"] = rng.choice(["bft", "ibft"])
            if "ffv" not in op and rng.random() < 0.6:
                op["ffv"] = rng.choice(["accept", "even", "dironly"])
            if "ffr" not in op and rng.random() < 0.5:
                op["ffr"] = rng.choice(["accept", "even"])
        elif kind == "search":
            op = st.gen.g_search(rng, view, st.namer)
            if op is None:
                return None
        elif kind == "dumps":
            roots = view.vertices() + view.edges()
            if not roots:
                return None
            op = {"root": rng.choice(roots), "proto": rng.randint(0, 5)}
        else:
            if not us:
                return None
            op = {"u": rng.choice(us)}
            if kind == "basic_render":
                op["rfunc"] = rng.random() < 0.8
                op["sort"] = rng.random() < 0.5
            elif kind == "plantuml":
                op["user"] = rng.random() < 0.8
                op["title"] = rng.random() < 0.3
            else:
                op["rvfunc"] = rng.random() < 0.8
                op["refunc"] = rng.random() < 0.8
                if kind == "pyvis" and rng.random() < 0.3:
                    op["netkw"] = True
                if op["rvfunc"] and len(us) >= 2 and rng.random() < 0.25:
                    op["reenter"] = rng.choice([u for u in us if u != op["u"]])
                    op["reenter_at"] = rng.choice([1, 2, 2, 3, 4])
                    st.stats["probe:label-callback-re-enters-the-renderer"] += 1
                    st.stats["fault:reentrant-call-from-callback"] += 1
        op = dict(op)
        op.pop("op", None)
        op["kind"] = kind
        return op

    # -- execution -------------------------------------------------------------------------
    def execute(self, st, op):
        if op["op"] != "enumerate":
            if getattr(st, "dangling", False):
                # a vertex lists a link that does not name it (a user override
                # raised in mid-call): the link cannot tell that vertex about
                # later changes, so what its memo holds after another mutation
                # is nobody's fault.  Reads go on; mutations do not.
                st.stats["note:mutation-skipped:a-vertex-lists-a-link-that-omits-it"] += 1
                return None, None
            out = st.ex.apply(op)
            if out is None:
                return None, None
            st.stats["op:" + op["op"]] += 1
            if out.get("exc") == "InjectedFault":
                st.stats["probe:mutator-cut-short-by-a-user-override-before-the-reads"] += 1
                st.stats["fault:exception-out-of-subclass-override"] += 1
                snap = st.ex.w.snapshot()
                if any(
                    lab not in snap.get(l, {}).get("ends", ())
                    for lab, d in snap.items()
                    for l in d.get("links", ())
                ):
                    st.dangling = True
            for name, val in (op.get("attrs") or {}).items():
                if name.startswith("__"):
                    st.stats["probe:user-attribute-with-two-leading-underscores"] += 1
                if isinstance(val, dict) and "$iter" in val:
                    st.stats["probe:one-shot-iterator-as-attribute-value"] += 1
            st.refresh()
            st.mutations += 1
            return out, None
        return self.enumerate(st, op)

    def enumerate(self, st, op):
        s = st.stats
        entry = op["entry"]
        h = Harness(st.ex, entry)
        flag = bool(op.get("cache"))
        seams.set_flag(False)
        try:
            if entry.get("netkw") and entry.get("u") in st.ex.w.objs:
                u = st.ex.w.objs[entry["u"]]
                if not isinstance(vars(u).get("display"), dict):
                    u.display = {"height": "400px"}
                s["probe:network-kwargs-kept-on-the-universe"] += 1
            # warm: the reference answers are read under the triple's own flag,
            # so with caching on the memos are full before the call (a call that
            # damages an entry shows).  cold: the reference answers are read
            # with caching off, so the call under test is the first to fill the
            # memo (a call that stores a wrong entry shows in the reads after)
            s0 = deep_snapshot(st.ex, flag if op.get("warm", True) else False)
            s["probe:" + ("warm" if op.get("warm", True) else "cold") + "-memo-before-the-call"] += 1
            self._shape_probes(st, entry, s0)
            cbs = h.make_callbacks()
            seams.set_flag(flag)
            try:
                R = h.call(cbs)
            except O._Missing:  # pylint: disable=protected-access
                return None, None
            seams.set_flag(False)
            s["op:enumerate"] += 1
            s["triples"] += 1
            s["probe:entry:" + entry["kind"]] += 1
            s["probe:cache-" + ("on" if flag else "off")] += 1
            if "exc" in R:
                s["probe:fault-free-call-raised"] += 1
            st.enumerated += 1
            st.last_triple = engine.h64(engine.jdump([s0, entry, flag]))
            counts = {name: cb.count for name, cb in cbs.items() if isinstance(cb, CB)}
            s1 = deep_snapshot(st.ex, flag)
            if s1 != s0:
                return {"R": R, "N": counts}, self._changed(
                    "C13/graph-changed-by-fault-free-call", entry, s0, s1, None, None
                )
            if entry["kind"] == "trav" and entry.get("fn") in O.GEN_TRAVS and "exc" not in R:
                v = self._suspended(st, h, entry, flag, s0, R)
                if v is not None:
                    return {"R": R, "N": counts}, v
            total = 0
            op_key = engine.h64(engine.jdump(op))
            for name in sorted(counts):
                pos = positions(counts[name], op_key)
                # every position with an ordinary exception; the first and last
                # few also with StopIteration, the one exception type that
                # iterator machinery (filter, map, next, generators) treats
                # as "finished" instead of as an error
                plan = [(k, InjectedFault) for k in pos] + [
                    (k, StopIteration) for k in sorted(set(pos[:3] + pos[-2:]))
                ]
                # ... and a few with the exception types library code is most
                # likely to catch for reasons of its own (a missing attribute,
                # a missing key, a wrong type)
                odd_types = [AttributeError, KeyError, TypeError]
                plan += [
                    (k, odd_types[(k + i) % 3]) for i, k in enumerate(sorted(set(pos[:2] + pos[-1:])))
                ]
                for k, ftype in plan:
                    cbs_k = h.make_callbacks()
                    cbs_k[name].reset(fault_at=k, fault_type=ftype)
                    if ftype is StopIteration:
                        s["fault:callback-raised-StopIteration"] += 1
                    elif ftype is not InjectedFault:
                        s["fault:callback-raised-" + ftype.__name__] += 1
                    seams.set_flag(flag)
                    out_k = h.call(cbs_k)
                    seams.set_flag(False)
                    if cbs_k[name].fired:
                        total += 1
                        s["fault:callback-raised:" + name] += 1
                        s["probe:callback-faulted:" + name] += 1
                    s2 = deep_snapshot(st.ex, flag)
                    if s2 != s0:
                        return {"R": R, "N": counts}, self._changed(
                            f"C13/graph-changed-after-callback-fault:{entry['kind']}:{name}",
                            entry, s0, s2, name, k,
                        )
                    # same callbacks, now well-behaved: the normal answer
                    for cb in cbs_k.values():
                        if isinstance(cb, CB):
                            cb.reset(None)
                    seams.set_flag(flag)
                    again = h.call(cbs_k)
                    seams.set_flag(False)
                    if again != R:
                        return {"R": R, "N": counts}, engine.viol(
                            f"C13/clean-rerun-differs-after-callback-fault:{entry['kind']}:{name}",
                            {
                                "entry": entry,
                                "callback": name,
                                "k": k,
                                "cache": flag,
                                "normal": _short(R),
                                "rerun": _short(again),
                                "faulted_call_ended": _short(out_k),
                            },
                        )
                    s3 = deep_snapshot(st.ex, flag)
                    if s3 != s0:
                        return {"R": R, "N": counts}, self._changed(
                            "C13/graph-changed-by-clean-rerun", entry, s0, s3, name, k
                        )
            st.faulted += total
            s["faulted-calls"] += total
            if total:
                st.with_callbacks += 1
            return {"R": _short(R), "N": counts, "faulted": total}, None
        finally:
            seams.set_flag(False)

    def _suspended(self, st, h, entry, flag, s0, R):
        """
        A lazy traversal is a read-only operation for as long as it lives: the
        graph must look the same to its consumer between any two of its steps,
        after it was abandoned half-way, and the steps must add up to the
        answer of the eager call.
        """
        s = st.stats
        s["probe:lazy-traversal-stepped-with-the-graph-inspected-between-steps"] += 1
        cbs = h.make_callbacks()
        seams.set_flag(flag)
        try:
            it = h.open_traversal(cbs)
            got = []
            n = len(R["ret"])
            stop_after = None if n < 2 or engine.h64(engine.jdump([entry, n])) % 3 else 1 + engine.h64(engine.jdump(entry)) % (n - 1)
            while True:
                seams.set_flag(flag)
                try:
                    got.append(st.ex.norm(next(it)))
                except StopIteration:
                    break
                except Exception as exc:  # pylint: disable=broad-except
                    seams.set_flag(False)
                    return engine.viol(
                        "C13/stepped-traversal-differs-from-the-same-call-consumed-at-once",
                        {"entry": entry, "cache": flag, "at_once": _short(R), "stepped": got[:12], "then_raised": type(exc).__name__},
                    )
                seams.set_flag(False)
                s["task-step"] += 1
                sk = deep_snapshot(st.ex, flag)
                if sk != s0:
                    return self._changed(
                        "C13/graph-changed-while-a-lazy-traversal-is-suspended", entry, s0, sk, None, len(got)
                    )
                if stop_after is not None and len(got) >= stop_after:
                    # the consumer loses interest: the generator is closed
                    s["probe:lazy-traversal-abandoned-half-way"] += 1
                    s["fault:task-abandoned"] += 1
                    it.close()
                    break
                if len(got) > n + 2:
                    break
            seams.set_flag(False)
            del it
            sk = deep_snapshot(st.ex, flag)
            if sk != s0:
                return self._changed(
                    "C13/graph-changed-after-a-lazy-traversal-ended-or-was-abandoned", entry, s0, sk, None, len(got)
                )
            if stop_after is None and got != R["ret"]:
                return engine.viol(
                    "C13/stepped-traversal-differs-from-the-same-call-consumed-at-once",
                    {"entry": entry, "cache": flag, "at_once": _short(R), "stepped": got[:12]},
                )
        except O._Missing:  # pylint: disable=protected-access
            return None
        finally:
            seams.set_flag(False)
        return None

    def _changed(self, kind, entry, s0, s1, name, k):
        from egsim import model as M

        return engine.viol(
            kind,
            {"entry": entry, "callback": name, "k": k, "diff": M.first_difference(s1, s0)},
        )

    def _shape_probes(self, st, entry, s0):
        u = entry.get("u")
        if not u or u not in s0:
            return
        members = set(s0[u].get("members", []))
        for m in members:
            for l in s0.get(m, {}).get("links", []):
                ends = s0.get(l, {}).get("ends", [])
                if any(e is not None and e not in members for e in ends):
                    st.stats["probe:link-leaves-universe"] += 1
                    return
        for m in members:
            for l in s0.get(m, {}).get("links", []):
                ends = s0.get(l, {}).get("ends", [])
                if len(ends) == 2 and ends[0] == ends[1]:
                    st.stats["probe:self-loop-in-universe"] += 1
                    return

    def state_hash(self, st):
        t = st.last_triple
        st.last_triple = None
        return t

    def nontrivial(self, st):
        return st.with_callbacks >= 1

    def extra_coverage(self, merged):
        stats = merged["stats"]
        return {
            "triples_enumerated": stats.get("triples", 0),
            "faulted_calls": stats.get("faulted-calls", 0),
            "states_measure": "distinct (deep world snapshot, entry point, settings, cache flag) "
            "triples on which the fault enumeration was carried out",
            "exhaustive": False,
            "exhaustive_note": "fault positions are enumerated exhaustively within each sampled "
            "triple; the triples themselves are sampled",
        }


def _short(out):
    s = engine.jdump(out)
    if len(s) > 300:
        return {"digest": engine.h64(s), "head": s[:200]}
    return out


PROPERTY = C13()
