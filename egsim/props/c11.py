"""
C11 -- adjacency builders build exactly the described graph; bad input is
rejected whole (DESIGN 4/C11; claimed as borderline, see there).

The builders are mutators of *existing* vertices.  Workload: load_adj_dict /
load_adj_matrix issued at arbitrary points of a C03-style history, on vertices
that already carry links, universes and membership; all two-ended link
classes; inputs with empty rows, self entries, repeated entries, values that
are not keys, truthy cells of assorted types and falsy cells; and, as failing
calls, ragged / non-square matrices and side arrays of the wrong length.
Oracle: model equality after every step (new universe's ordered members; one
new link per pair / truthy cell, oriented key/row -> value/column, in input
order, appended to both ends' links; everything that existed before still in
place and in order); for rejected input: ValueError and a world identical to
the one before the call.  When every vertex named was fresh (no links), the
literal read-back clause is checked too: neighbors() / find_links reproduce
the input adjacency.
"""

import collections

from egsim import classes as C
from egsim import gen, engine, ops as O, model as M
from egsim.props import common, c03

CELL_POOLS = [
    ("0", "1"),
    ("0", "0", "1"),
    ("F", "T", "0", "1"),
    ("0", "", "N", "[]", "1", "2.5", "x", "[0]", "-1", "T"),
    ("0", "0", "1", "nan", "inf", "-inf", "2.5"),
]


class C11(common.ModelProperty):
    id = "C11"
    title = "adjacency builders build exactly the described graph; bad input rejected whole"
    max_steps = 80
    budget = {
        "quick": {"runs": 80000, "wall_cap_s": 600},
        "thorough": {"runs": 3000000, "wall_cap_s": 5400},
    }
    rule = (
        "one evaluation = one seeded history in which load_adj_dict / load_adj_matrix are "
        "issued among other public mutators on vertices with prior links and universes, "
        "compared with the reference model after every step (ordered members, one oriented "
        "link per pair / truthy cell in input order, frame untouched); ill-shaped matrices "
        "must raise ValueError atomically; read-back through neighbors()/find_links when the "
        "named vertices were fresh; distinct = distinct event-log digest; non-trivial = at "
        "least one builder call that created a link"
    )
    assumptions = [
        "single-threaded use; neighbor caching off (builders under caching is C05's)",
        "observation through public accessors only",
        "the read-back clause is checked for directed and undirected classes (and subclasses) "
        "when every named vertex was link-free before the call",
        "inputs and histories are sampled, not enumerated",
    ]
    expected_probes = [
        "builder-on-vertices-with-prior-links",
        "builder-on-vertices-with-prior-universes",
        "dict-self-entry",
        "dict-repeated-entry",
        "dict-value-not-a-key",
        "dict-empty-row",
        "matrix-truthy-non-bool-cell",
        "matrix-falsy-non-bool-cell",
        "matrix-repeated-vertex",
        "rejected:ragged-or-non-square",
        "rejected:side-array-length",
        "read-back-checked",
        "read-back-with-caching-on-and-off",
        "default-link-type",
        "universe-as-adjacency-value",
    ]

    def make_config(self, rng):
        cfg = common.std_struct_config(
            rng, kinds=c03.KINDS, always=("mk_edge",), multi_p=0.0, lo=4, hi=50, mean=14
        )
        cfg["p_bad"] = 0.0
        cfg["p_none"] = rng.choice([0.0, 0.0, 0.05])
        cfg["max_links"] = rng.choice([6, 10, 16])
        cfg["p_builder"] = rng.choice([0.2, 0.4, 0.7])
        cfg["cells"] = list(rng.choice(CELL_POOLS))
        cfg["p_bad_shape"] = rng.choice([0.0, 0.15, 0.3])
        cfg["fresh_start"] = rng.random() < 0.3
        cfg["max_universes"] = cfg["nu"] + 6
        if rng.random() < 0.2:
            cfg["universe_classes"] = ["Universe", "ClusterUniverse"]
            cfg["nu"] = max(1, cfg["nu"])
        return cfg

    def next_op(self, rng, cfg, st):
        if st.pending_setup is None:
            st.pending_setup = gen.setup_ops(rng, cfg, st.namer)
        if st.pending_setup:
            return st.pending_setup.pop(0)
        if rng.random() < cfg["p_builder"] or cfg["fresh_start"]:
            for _ in range(5):
                if rng.random() < 0.5:
                    op = gen.g_adj_dict(st.gen, rng, st.view, st.namer)
                    clusters = [
                        u for u in st.view.universes()
                        if st.view.snap[u]["cls"] == "ClusterUniverse" and st.view.snap[u]["members"]
                    ]
                    if op is not None and clusters and rng.random() < 0.4:
                        # one row's value is a universe, iterated for its members
                        i = rng.randrange(len(op["adj"]))
                        c = rng.choice(clusters)
                        members = list(st.view.snap[c]["members"])
                        room = cfg.get("max_links", 10) - len(st.view.edges())
                        if len(members) <= max(0, room):
                            op["adj"][i][1] = members
                            op.setdefault("clusters", {})[op["adj"][i][0]] = c
                            st.stats["probe:universe-as-adjacency-value"] += 1
                else:
                    op = gen.g_adj_matrix(
                        st.gen, rng, st.view, st.namer,
                        cell_pool=cfg["cells"], p_bad_shape=cfg["p_bad_shape"],
                    )
                if op is not None:
                    return op
        return super().next_op(rng, cfg, st)

    def execute(self, st, op):
        k = op["op"]
        if k not in ("adj_dict", "adj_matrix"):
            return super().execute(st, op)
        s = st.stats
        snap = st.snap
        named = []
        pairs = []
        if k == "adj_dict":
            for key, vals in op["adj"]:
                named.append(key)
                named.extend(vals)
                pairs.extend((key, v) for v in vals)
                if not vals:
                    s["probe:dict-empty-row"] += 1
                if key in vals:
                    s["probe:dict-self-entry"] += 1
                if len(set(vals)) != len(vals):
                    s["probe:dict-repeated-entry"] += 1
            keys = {key for key, _ in op["adj"]}
            if any(v not in keys for _, vals in op["adj"] for v in vals):
                s["probe:dict-value-not-a-key"] += 1
        else:
            n = len(op["matrix"])
            named.extend(op["verts"])
            ragged = any(len(r) != n for r in op["matrix"])
            if len(op["verts"]) != n:
                s["probe:rejected:side-array-length"] += 1
            elif ragged:
                s["probe:rejected:ragged-or-non-square"] += 1
            else:
                for i, row in enumerate(op["matrix"]):
                    for j, c in enumerate(row):
                        if O.cell_truth(c):
                            pairs.append((op["verts"][i], op["verts"][j]))
                            if c not in ("1", "T"):
                                s["probe:matrix-truthy-non-bool-cell"] += 1
                        elif c not in ("0", "F"):
                            s["probe:matrix-falsy-non-bool-cell"] += 1
            if len(set(op["verts"])) != len(op["verts"]):
                s["probe:matrix-repeated-vertex"] += 1
        if any(v not in snap for v in named):
            return None, None
        if op.get("cls") is None:
            s["probe:default-link-type"] += 1
        fresh = all(not snap[v]["links"] for v in named)
        if any(snap[v]["links"] for v in named):
            s["probe:builder-on-vertices-with-prior-links"] += 1
        if any(snap[v]["universes"] for v in named):
            s["probe:builder-on-vertices-with-prior-universes"] += 1
        out, v = super().execute(st, op)
        if v is not None:
            if "exc" in (out or {}) and "must raise ValueError" in engine.jdump(v.get("detail")):
                v["kind"] = "C11/rejected-with-other-exception:" + k
            elif v["kind"].startswith("C11/failed-call-changed-state"):
                v["kind"] = "C11/rejected-input-touched-the-graph:" + k
            return out, v
        if out is not None and "exc" not in out and pairs:
            st.built = getattr(st, "built", 0) + 1
        if out is not None and "exc" not in out and pairs and v is None:
            v = self.read_back_either_way(st, op, pairs)
        if v is None and out is not None and "exc" not in out and fresh:
            cls = op.get("cls") or ("UnDirectedEdge" if k == "adj_dict" else "DirectedEdge")
            if cls != "OtherTwoEnded" and (k == "adj_dict" or len(set(op["verts"])) == len(op["verts"])):
                s["probe:read-back-checked"] += 1
                v = self.read_back(st, op, cls, named, pairs)
        return out, v

    def read_back_either_way(self, st, op, pairs):
        """
        Also for vertices that had links before: what find_links and
        neighbors() say about the listed pairs must not depend on whether
        neighbor caching is on when the result is read back.
        """
        from egsim import seams

        st.stats["probe:read-back-with-caching-on-and-off"] += 1
        reads = []
        for a, b in list(dict.fromkeys(pairs))[:6]:
            # a filtered look first: its answer must not become the answer of
            # the plain question that follows
            reads.append({"op": "neighbors", "v": a, "unk": "nb", "ff": "reject"})
            reads.append({"op": "neighbors", "v": a, "unk": "nb", "ff": "even"})
            reads.append({"op": "find_links", "a": a, "b": b})
            reads.append({"op": "find_links", "a": a, "b": b, "ds": True})
            reads.append({"op": "neighbors", "v": a, "unk": "nb"})
        ambient = seams.get_flag()
        for r in reads:
            seams.set_flag(False)
            try:
                off = st.ex.apply(dict(r))
                seams.set_flag(True)
                on = st.ex.apply(dict(r))
            finally:
                seams.set_flag(ambient)
            if on != off:
                return engine.viol(
                    "C11/read-back-depends-on-caching:" + r["op"],
                    {"op": op, "read": r, "caching_off": off, "caching_on": on},
                )
        return None

    def read_back(self, st, op, cls, named, pairs):
        """neighbors()/find_links reproduce the input adjacency."""
        directed = C.is_directed(cls)
        for a in dict.fromkeys(named):
            got = st.ex.apply({"op": "neighbors", "v": a, "dir": "fwd", "unk": "err"})
            if "exc" in got:
                return engine.viol(
                    "C11/read-back:neighbors-raised", {"op": op, "vertex": a, "exc": got["exc"]}
                )
            if directed:
                want = [b for (x, b) in pairs if x == a]
                ok = got["ret"] == want
            else:
                want = []
                for x, b in pairs:
                    if x == a:
                        want.append(b)
                    elif b == a:
                        want.append(x)
                ok = collections.Counter(got["ret"]) == collections.Counter(want)
            if not ok:
                return engine.viol(
                    "C11/read-back:neighbors-differ-from-input",
                    {"op": op, "vertex": a, "got": got["ret"], "input": want},
                )
        if directed:
            # read backwards, every vertex sees exactly those that list it
            for a in dict.fromkeys(named):
                got = st.ex.apply({"op": "neighbors", "v": a, "dir": "back", "unk": "err"})
                want = [x for (x, b) in pairs if b == a]
                if "exc" in got or collections.Counter(got["ret"]) != collections.Counter(want):
                    return engine.viol(
                        "C11/read-back:backward-neighbors-differ-from-input",
                        {"op": op, "vertex": a, "got": got, "input": want},
                    )
        for a, b in dict.fromkeys(pairs):
            got = st.ex.apply({"op": "find_links", "a": a, "b": b, "ds": True, "unk": "err"})
            if "exc" in got:
                return engine.viol(
                    "C11/read-back:find_links-raised", {"op": op, "pair": [a, b], "exc": got["exc"]}
                )
            if directed or a == b:
                want = sum(1 for p in pairs if p == (a, b))
            else:
                want = sum(1 for p in pairs if p in ((a, b), (b, a)))
            if len(got["ret"]["set"]) != want:
                return engine.viol(
                    "C11/read-back:find_links-count-differs-from-input",
                    {"op": op, "pair": [a, b], "got": got["ret"], "input_count": want},
                )
        return None

    def nontrivial(self, st):
        return getattr(st, "built", 0) >= 1


PROPERTY = C11()
