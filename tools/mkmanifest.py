#!/usr/bin/env python3
"""Writes /verif/MANIFEST.json from the table below (kept in one place)."""
import json
import os

HERE = os.path.dirname(os.path.dirname(os.path.abspath(__file__)))
BASELINE = json.load(open("/root/.vp/BASELINE.json"))["cmd"]

CLAIMED = {
    "C01": dict(
        cat="exploration",
        ref="DESIGN.md 4/C01",
        technique="deterministic simulation: seeded histories of public mutators entered from the vertex, link and builder side, with failing-call faults, user overrides that re-enter the protocol or raise after recording, the warnings-as-errors setting, value-equal and falsy vertex classes, in-process pickle round trips; symmetry/duplicate invariant after every step; minimised op-list replay; the process-wide caching flag flipped at seeded points of a share of the histories",
        text="Seeded search over call histories (aliasing-biased arguments, calls that raise part-way) with the symmetric / duplicate-free invariant evaluated after every step. Sampling, not proof: right level because the property quantifies over unboundedly many histories of a re-entrant two-party protocol.",
        note="Trusts: CPython, the label/snapshot walk over public accessors (links, vertices). Assumes single-threaded use; the caching flag is a seam (flipped in a share of the histories), the invariant must hold either way.",
    ),
    "C02": dict(
        cat="exploration",
        ref="DESIGN.md 4/C02",
        technique="deterministic simulation: seeded membership histories from both sides over nested universes, iterator/generator arguments, re-entrant / raising / re-admitting subclass overrides, universes with thousands of members, in-process pickle round trips, the warnings-as-errors setting, failing-call (non-member removal) atomicity, list reference model after every step; mass departures from universes with dozens to hundreds of members; the caching flag flipped at seeded points",
        text="Seeded histories of the four membership calls and two constructors against an insertion-ordered list model; removal of a non-member must raise and leave the snapshot untouched.",
        note="Trusts the reference model in egsim/model.py (40 lines for these calls). Any exception class counts as 'raises'.",
    ),
    "C03": dict(
        cat="exploration",
        ref="DESIGN.md 4/C03",
        technique="deterministic simulation: refinement of an executable reference model over seeded histories, whole-world equality and return values after every step; the caching flag flipped at seeded points of a share of the histories",
        text="Operation-by-operation refinement check of the whole observable graph against a plain-data model; failing constructor calls must be atomic.",
        note="Trusts the reference model; two narrow relaxations listed in DESIGN 6.5 (edge position when already listed, which joining link dontdup returns).",
    ),
    "C19": dict(
        cat="exploration",
        ref="DESIGN.md 4/C19",
        technique="deterministic simulation: seeded histories of the two mutually recursive setters from either side over plain, falsy and value-equal universe classes, an ill-typed assignment as a history-ending failing call, bijection invariant + own-target + rule read-back after every step, watchdog for runaway recursion; rule switches given values that are not bools, read back by type and value",
        text="Seeded histories of laws/applies_to assignments and universe constructions; u.laws is L iff L.applies_to is u over every known pair after every step.",
        note="Law sets built without applies_to=; what a displaced partner receives is not dictated beyond the invariant.",
    ),
    "C05": dict(
        cat="exploration",
        ref="DESIGN.md 4/C05",
        technique="deterministic simulation: twin worlds (cached under a seeded flag schedule vs. uncached) driven by one history of mutations and reads, with flag flips, process restarts (nrpickler dump -> fresh interpreter via exec or zygote fork), seeded interleaving of suspended generator traversals, mutators cut short by exceptions out of user overrides; every read compared; links of a vertex changed while a lazy traversal is suspended inside the expansion of that very vertex",
        text="Seeded search over interleavings of mutations (every public mutator, entered through either end, the edge, unlink, builders), reads (neighbors in all argument combinations, six traversal forms, three searches), cache-flag flips, one restart per run and up to four live generator traversals; the uncached twin is the property's own oracle.",
        note="Reference = the same library code with NEIGHBOR_CACHING False. Zygote forks stand in for fresh interpreters for volume; a fixed share are real exec restarts and replays always exec.",
    ),
    "C10": dict(
        cat="exploration",
        ref="DESIGN.md 4/C10",
        technique="deterministic simulation of a crash/restart boundary: a world grown by a seeded history (or a deep shape many times the recursion limit, dumped under a measured lowered limit) is serialised with nrpickler, loaded in the same process or a fresh interpreter (zygote fork / exec), and original and copy are driven by the same continuation history (opening with mutation-then-same-read on warm memos); canonical snapshots (including sharing of containers and look-ups in hash containers) and every outcome compared; worlds include vertex classes that cannot be found by name (the pickle carries the class: plain, zero-argument super(), ABC metaclass) and attribute values that are functions of the running script; dumps of small worlds run under a 10 s watchdog (a dump that does not return is a violation with a replayable history)",
        text="Seeded search over graph shapes, roots, protocols 0-5, dumps/dump, pickle/dill, same-process vs fresh-process loading, flag on/off on either side and a resource knob (recursion limit near a measured floor); durability oracle = isomorphism incl. sharing + differential usability of the copy.",
        note="Classes of pickled objects are importable on the far side. Recursion floor measured per process on the same shape with 6 vertices. Zygote forks stand in for fresh interpreters for volume; a share are real exec.",
    ),
    "C11": dict(
        cat="exploration",
        ref="DESIGN.md 4/C11 (borderline, see there)",
        technique="deterministic simulation: adjacency builders issued as mutators inside seeded histories on vertices with prior links/universes; reference model after every step; ill-shaped input as failing calls that must raise ValueError atomically; read-back through neighbors()/find_links forwards and backwards, with caching off and on; the caching flag flipped at seeded points of a share of the histories; matrices without rows",
        text="Refinement against the reference model of the builders' effect and frame over histories, atomic rejection of bad input, read-back when the named vertices were fresh.",
        note="Claimed for its frame and atomic-rejection clauses; the input->graph core is covered by the same model comparison.",
    ),
    "C12": dict(
        cat="exploration",
        ref="DESIGN.md 4/C12",
        technique="deterministic simulation with fault injection: a misbehaving client scribbles on exchanged containers (returned and handed-in) at seeded points of a twin-world history, cache off/on/toggling, in-process pickle round trips of both worlds, suspended generator traversals; extended snapshots and all later reads compared with the unscribbled uncached twin; reflected == / | operands that write into the mapping a read-only proxy wraps",
        text="Injected corruption of every exchanged container kind (list/set/dict mutations, inner level too) followed by continued operation; immutable containers must refuse.",
        note="'Copied' concerns the collection passed, not objects stored in it. Reference = the twin that never meets the misbehaving client.",
    ),
    "C13": dict(
        cat="fault_enumeration",
        ref="DESIGN.md 4/C13",
        technique="deterministic simulation with fault injection: for sampled (world, entry point, settings, cache flag) triples, an exception is injected at the k-th invocation of every user callback for every k (InjectedFault everywhere, StopIteration / AttributeError / KeyError / TypeError at the edges), re-entrant callbacks; deep snapshot (structure, attribute-name sets, public values) before/after, clean re-run compared with the fault-free result; lazy traversals advanced one element at a time with the deep snapshot compared between steps and after abandoning them half-way",
        text="Exhaustive enumeration of callback fault positions within each sampled triple (all k while N<=32), crash-consistency oracle: however the call ends, the graph is as before and a clean re-run gives the normal answer.",
        note="Faults are exceptions from user callbacks only. Private attribute values are not compared, names are. Triples are sampled; fault positions within them are enumerated.",
    ),
    "C17": dict(
        cat="exploration",
        ref="DESIGN.md 4/C17",
        technique="deterministic simulation: seeded histories over process-global registries shared by thirteen related classes (derived metaclasses, falsy / order-sensitive hash functions, value-equal instances), suspended get_all generators, caller-held mutable arguments, colliding argument values, fault injection (user __init__ raising, un-keyable arguments), re-entrant registry calls from inside __init__, runs that hold no references (GC), per-class key->instance model, every live key of every class re-queried after every step",
        text="Seeded histories of constructions, add_mapping, drop, check, get_all and clear across classes sharing metaclass registries, against a per-class model; isolation is probed by re-querying all live keys after each operation.",
        note="Key equality = Python equality of (args, sorted-kwargs JSON) or of the custom function's value. Whether dropping an absent key raises is not specified.",
    ),
    "C18": dict(
        cat="exploration",
        ref="DESIGN.md 4/C18",
        technique="deterministic simulation: seeded histories of constructions and targeted/global clears over a class, two subclass levels, falsy-instance classes, a derived metaclass, classes defined in mid-history and an unrelated class sharing one process-global table; fault injection (__init__ raising, warnings as errors), re-entrant clears/constructions from inside __init__, runs that hold no references; cls->instance model, all live classes re-checked after every step; classes with an ordinary restrictive __init__ signature (non-fitting calls while an instance is on file and while none is), user code inside a constructor that then fails; a slotted singleton class",
        text="Seeded interleavings of constructions (arbitrary arguments) and clears; identity, __init__ count and first-call arguments checked against the model after every step.",
        note="The global table is emptied through the public clear at run start; classes are fresh per run.",
    ),
    "C20": dict(
        cat="exploration",
        ref="DESIGN.md 4/C20",
        technique="deterministic simulation: the random module as a nondeterminism seam - reseeded, continued and adversarially biased generator states; process-wide settings flipped for single calls (warnings as errors, debug logging), re-entrant and falsy-instance edge classes; structural oracle, same-state reproducibility and a non-termination watchdog on every call; neighbor caching switched on for the duration of a share of the calls; an edge type whose constructor reads the i of both ends; documented parameters passed positionally; connectivity as Fraction / Decimal",
        text="Seeded search over (count, edge type, connectivity, ensurelink) x generator states, including draws forced to the ends of their range; each call repeated from the same state must rebuild the same graph.",
        note="Biased draws patch random.randint/random.sample during the call only; each returned value is one the real generator can produce.",
    ),
}

NOT_APPLICABLE = {
    "C04": "neighbors() is a decision table evaluated on the current graph: a value-level function of its input; with the cache factored out (that is C05) nothing a scheduler, fault or restart controls can change its answer. Deciding it would be differential input testing, not simulation (DESIGN 2.3, 4/C04).",
    "C06": "Reachability is a function of the current graph; the only history/schedule dependence traversals have comes through the memo and suspended generator frames, which is decided under C05 (DESIGN 4/C06).",
    "C07": "Traversal order is a pure function of link order; no schedule, fault, clock or restart enters it (DESIGN 4/C07).",
    "C08": "A relation between two reads of one unchanged state; no fault, history or schedule enters it (DESIGN 4/C08).",
    "C09": "Two decision tables compared on the current state; its one step of history (empty after unlink) follows from C03's model of unlink (DESIGN 4/C09).",
    "C14": "A text formatter of the universe passed in; no history, fault, restart or schedule can reach its result (DESIGN 4/C14-16).",
    "C15": "An export of the current state to a third-party object; its one stateful wrinkle (temporary attribute on the exception path) is decided under C13 (DESIGN 4/C14-16).",
    "C16": "A text formatter of the current state; nothing a simulator controls enters it (DESIGN 4/C14-16).",
}

PENDING = {}


def main():
    checks = []
    for pid, c in sorted(CLAIMED.items()):
        checks.append(
            {
                "property_id": pid,
                "quick_cmd": f"timeout 1500 ./check {pid} --tier quick",
                "thorough_cmd": f"timeout 7200 ./check {pid} --tier thorough",
                "evidence_file": f"/verif/evidence/{pid}.json",
                "replay_cmd_template": f"./check {pid} --replay {{path}}",
                "engine": "egsim",
                "level_claimed": {
                    "category": c["cat"],
                    "text": c["text"],
                    "design_ref": c["ref"],
                },
                "level_note": c["note"],
                "technique": c["technique"],
            }
        )
    na = [
        {"property_id": k, "reason": v}
        for k, v in sorted({**NOT_APPLICABLE, **PENDING}.items())
        if k not in CLAIMED
    ]
    man = {
        "version": 1,
        "setup_cmd": "/venv/bin/python -B -c \"import sys; sys.path.insert(0, '/verif'); import egsim, egsim.runner; print('egsim ok; edgegraph from', egsim.REPO_ROOT)\"",
        "hooks": {
            "guard": "EDGEGRAPH_VERIF",
            "enable": "no hooks exist: every seam (callbacks, Vertex.NEIGHBOR_CACHING, uuid.uuid4, random, the pickler) is reachable from outside; checks import /repo's working tree directly (VERIF_REPO_ROOT, default /repo)",
            "baseline_off_cmd": BASELINE,
            "source_commits": [],
            "add_only": True,
        },
        "engines": [
            {
                "name": "egsim",
                "path": "/verif/egsim",
                "serves_properties": sorted(CLAIMED),
                "kind_free_text": "purpose-built deterministic simulator: one PRNG per run seeded from VERIF_SEED decides configuration, operations, faults, flag flips, restarts and task schedule; oracles after every step; ddmin over the recorded op list; replay file = op list",
            }
        ],
        "checks": checks,
        "not_applicable": na,
        "notes": "Fix commits in /repo (unguarded, one per defect) are listed in known_findings.json under 'fixed'. Exit 2 = harness error (never with a VIOLATION line).",
    }
    with open(os.path.join(HERE, "MANIFEST.json"), "w") as f:
        json.dump(man, f, indent=1)
    print("wrote MANIFEST.json:", len(checks), "claimed,", len(na), "not applicable")


if __name__ == "__main__":
    main()
