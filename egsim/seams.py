"""
The nondeterminism seams the simulator owns (DESIGN 2.2, S2/S8/S9).

* uuid.uuid4      -> seeded stream (edgegraph.structure.base calls uuid.uuid4())
* random (global) -> seeded per run (only randgraph reads it)
* Vertex.NEIGHBOR_CACHING -> set by the scheduler
* recursion limit -> set by the scheduler, restored per run

Nothing here reads a clock or draws from the scheduler's PRNG.
"""

import hashlib
import random
import sys
import uuid

import egsim  # noqa: F401  (path bootstrap)
from edgegraph.structure import Vertex

_REAL_UUID4 = uuid.uuid4
_DEFAULT_RECURSION_LIMIT = sys.getrecursionlimit()


class InjectedFault(Exception):
    """Raised by simulator callbacks at a scheduled invocation."""


def derive_seed(*parts) -> int:
    """A 64-bit integer derived from the parts (stable across processes)."""
    h = hashlib.sha256(":".join(str(p) for p in parts).encode()).digest()
    return int.from_bytes(h[:8], "big")


class _UidStream:
    def __init__(self, seed):
        self.rng = random.Random(seed)

    def __call__(self):
        return uuid.UUID(int=self.rng.getrandbits(128), version=4)


def install_uid_stream(seed):
    """uuid.uuid4 -> seeded.  Returns the stream (its state can be carried)."""
    s = _UidStream(seed)
    uuid.uuid4 = s
    return s


def uninstall_uid_stream():
    uuid.uuid4 = _REAL_UUID4


def set_flag(value: bool):
    Vertex.NEIGHBOR_CACHING = bool(value)


def get_flag() -> bool:
    return bool(Vertex.NEIGHBOR_CACHING)


def reset_process_state(run_seed):
    """Per-run hygiene (DESIGN 3.6)."""
    set_flag(False)
    sys.setrecursionlimit(_DEFAULT_RECURSION_LIMIT)
    install_uid_stream(derive_seed("uid", run_seed))
    random.seed(derive_seed("random", run_seed))


def cache_stats_totals():
    """
    Reach probe only (never a verdict): totals of the library's own
    hit/miss/invalidate/insert counters, if it still has them.
    """
    table = getattr(Vertex, "_CACHE_STATS", None)
    tot = [0, 0, 0, 0]
    if isinstance(table, dict):
        try:
            for st in table.values():
                for i in range(4):
                    tot[i] += st[i]
        except Exception:  # pylint: disable=broad-except
            return None
        return tot
    return None


class WarningsAsErrors:
    """
    Process-wide setting seam: the interpreter's warning filter at "error"
    (as under `python -W error` or pytest's `filterwarnings = error`) for the
    duration of one call into the library.
    """

    def __init__(self, on):
        self.on = on
        self.cm = None

    def __enter__(self):
        if self.on:
            import warnings

            self.cm = warnings.catch_warnings()
            self.cm.__enter__()
            warnings.simplefilter("error")

    def __exit__(self, *exc):
        if self.cm is not None:
            self.cm.__exit__(*exc)
        return False
