"""
C05 -- neighbor caching is transparent: cached answers always equal recomputed
ones (DESIGN 4/C05; the centre of this work).

A cache-coherence property over interleavings of mutations, queries,
configuration flips, restarts and suspended traversals.

Per run: twin worlds A (flag under the run's policy) and B (flag off), the same
history applied to both.  Every read -- neighbors in all argument combinations,
the six traversal forms, the three searches, steps of live generator
traversals -- must give label-equal answers (or the same exception class) on
both.  Simulator events: flag flips between any two steps (also with mutations
inside flag-off windows and with generators suspended), restart (the whole
twin world dumped with nrpickler and the history continued in a fresh
interpreter, warm memos and all), task scheduling and abandonment.
"""

import egsim  # noqa: F401
from egsim import engine, gen, ops as O, seams, twin
from egsim.props import common

MUTATORS = [
    "mk_edge",
    "set_end",
    "link",
    "unlink",
    "remove_from_link",
    "unlink_from",
    "adj_dict",
    "adj_matrix",
    # membership changes: reads confined to a universe must follow them
    "uni_add",
    "uni_remove",
    "v_remove_uni",
]
DEGENERATE = ["add_to_link", "add_vertex", "mk_vertex_links"]
READS = ["neighbors", "trav", "search"]
MUTATING_OPS = {
    "mk_edge",
    "set_end",
    "link",
    "unlink",
    "remove_from_link",
    "unlink_from",
    "add_to_link",
    "add_vertex",
    "mk_vertex",
    "adj_dict",
    "adj_matrix",
    "mk_universe",
    "uni_add",
    "uni_remove",
    "v_add_uni",
    "v_remove_uni",
}
READ_OPS = {"neighbors", "trav", "search", "step"}


class C05(engine.Property):
    id = "C05"
    title = "neighbor caching is transparent"
    max_steps = 90
    uses_restart = True
    budget = {
        "quick": {"runs": 64000, "wall_cap_s": 900},
        "thorough": {"runs": 1000000, "wall_cap_s": 5400},
    }
    rule = (
        "one evaluation = one seeded history applied to twin worlds (A: caching per the run's "
        "flag schedule, B: caching off): mutations through every public mutator and entry "
        "object, reads (neighbors x 45 argument combinations, 6 traversal forms, 3 searches, "
        "steps of up to 4 live generator traversals), flag flips, at most one restart "
        "(nrpickler dump -> fresh interpreter) -- every read compared A vs B; distinct = "
        "distinct event-log digest; non-trivial = at least 2 reads with the flag on and a "
        "mutation between reads"
    )
    assumptions = [
        "single-threaded use",
        "the uncached code path (flag off) is the reference: B is the same library code with "
        "Vertex.NEIGHBOR_CACHING False at every call",
        "filters are pure functions of (link class, immutable vertex tag)",
        "zygote restarts stand for fresh interpreters (a process that imported but never used "
        "edgegraph); a fixed fraction are real exec restarts",
        "interleavings are sampled, not enumerated",
    ]
    expected_probes = [
        "links-of-a-vertex-change-while-a-lazy-traversal-is-suspended-inside-its-expansion",
        "read-mutate-read-on-same-vertex",
        "mutation-in-flag-off-window-then-cached-read",
        "flag-flip-with-live-generators",
        "mutation-with-live-generators",
        "restart-with-warm-memo",
        "cache-hit-in-restarted-process",
        "mutation-entered-through-edge",
        "mutation-entered-through-far-end",
        "builder-on-existing-vertices",
        "task-abandoned",
        "short-lived-filter-callable",
        "mutator-cut-short-by-an-exception-out-of-a-user-override",
        "membership-change-between-two-restricted-reads",
        "half-attached-edge-completed-from-the-vertex-side",
        "unset-end-dropped-from-an-edge",
        "end-assignment-on-an-edge-naming-a-further-vertex",
        "adjacency-values-are-a-running-traversal",
        "equal-but-distinct-vertices-named-in-turn",
    ]

    # -- configuration -------------------------------------------------------------
    def make_config(self, rng):
        degenerate = rng.random() < 0.35
        kinds = MUTATORS + (DEGENERATE if degenerate else [])
        cfg = common.std_struct_config(
            rng, kinds=kinds, always=("mk_edge",), multi_p=0.0, lo=4, hi=70, mean=22
        )
        if not degenerate:
            cfg["p_none"] = 0.0
        else:
            cfg["p_none"] = rng.choice([0.0, 0.03, 0.08])
        cfg["degenerate"] = degenerate
        cfg["cache"] = rng.choice(["on", "on", "on-late", "toggling", "toggling"])
        cfg["flip_rate"] = rng.choice([0.03, 0.08, 0.2])
        cfg["p_read"] = rng.choice([0.35, 0.5, 0.65])
        cfg["p_pattern"] = rng.choice([0.2, 0.5, 0.8])
        cfg["read_weights"] = gen.swarm_weights(rng, READS, always=("neighbors",))
        cfg["nb_filters"] = rng.choice(
            [
                [None],
                [None, "accept", "reject"],
                [None, "even", "dironly"],
                [None, "accept", "reject", "even", "dironly"],
                # short-lived callables (a new closure per call), as inline lambdas are
                [None, "~accept", "~reject", "~even"],
                ["~accept", "~reject", "~even", "~dironly", "even"],
            ]
        )
        cfg["result_filters"] = rng.choice([[None], [None, "even", "reject"]])
        cfg["ntasks"] = rng.choice([0, 0, 1, 2, 4])
        cfg["p_task"] = rng.choice([0.1, 0.25])
        r = rng.random()
        cfg["restart"] = None
        if r < 0.22:
            cfg["restart"] = {
                "at": rng.randint(2, max(2, cfg["steps"] - 2)),
                "mode": rng.choice(["zygote"] * 6 + ["exec"] + ["inproc"] * 3),
                "loader": rng.choice(["pickle", "dill"]),
                "proto": rng.randint(0, 5),
                "hashseed": rng.randint(0, 4294967295),
            }
        cfg["universes_as_ends"] = rng.random() < 0.3
        cfg["p_repair"] = 0.06 if cfg["p_none"] else rng.choice([0.0, 0.04])
        cfg["lazy_adjacency"] = rng.random() < 0.25
        if cfg["lazy_adjacency"]:
            cfg["weights"]["adj_dict"] = max(3, cfg["weights"].get("adj_dict", 0))
        if rng.random() < 0.08:
            # a vertex class with its own __setstate__ (matters across a restart)
            cfg["vertex_classes"] = ["Vertex", "MigratingVertex"]
        elif rng.random() < 0.2:
            # vertices with value equality: equal-but-distinct ends, hash by value
            cfg["vertex_classes"] = ["EqVertex"] if rng.random() < 0.5 else ["EqVertex", "Vertex"]
            cfg["p_repair"] = 0.1
        elif rng.random() < 0.15:
            # a vertex that refuses a third link by raising out of its add_to_link
            # override: library calls fail half-way and leave half-attached edges
            cfg["vertex_classes"] = ["PortVertex"] if rng.random() < 0.5 else ["PortVertex", "Vertex"]
            cfg["weights"]["add_to_link"] = max(cfg["weights"].get("add_to_link", 0), 4)
            cfg["weights"]["remove_from_link"] = max(cfg["weights"].get("remove_from_link", 0), 3)
            cfg["p_repair"] = 0.15
        if rng.random() < 0.1:
            # an edge class whose add_vertex override raises for some vertices
            cfg["edge_classes"] = sorted(set(cfg["edge_classes"]) | {"BrittleEdge"})
            cfg["weights"]["add_to_link"] = max(cfg["weights"].get("add_to_link", 0), 4)
        return cfg

    def start(self, cfg):
        st = twin.TwinState(cfg)
        st.gen = gen.StructGen(cfg)
        st.flag = cfg["cache"] == "on"
        st.step_no = 0
        return st

    # -- generation --------------------------------------------------------------------
    def next_op(self, rng, cfg, st):
        if getattr(st, "diverged", False):
            return None
        if st.pending is None:
            st.pending = gen.setup_ops(rng, cfg, st.namer)
            # a few edges up front so that reads have something to read
            for _ in range(rng.randint(0, 4)):
                st.pending.append(("draw", "mk_edge"))
        while st.pending:
            op = st.pending.pop(0)
            if isinstance(op, tuple):
                op = st.gen.draw(rng, st.view, st.namer, op[1])
                if op is None:
                    continue
            return op
        st.step_no += 1
        rs = cfg.get("restart")
        if rs and not st.restarted and st.step_no >= rs["at"]:
            st.restarted = True
            return {
                "op": "restart",
                "mode": rs["mode"],
                "loader": rs["loader"],
                "proto": rs["proto"],
                "hashseed": rs["hashseed"],
            }
        # flag schedule
        if cfg["cache"] == "toggling" and rng.random() < cfg["flip_rate"]:
            return {"op": "flag", "value": not st.flag}
        if cfg["cache"] == "on-late" and not st.flag and rng.random() < 0.12:
            return {"op": "flag", "value": True}
        if st.queue:
            return st.queue.pop(0)
        if rng.random() < cfg.get("p_repair", 0.0):
            ops = self._repair_pattern(rng, st)
            if ops:
                st.queue.extend(ops[1:])
                return ops[0]
        # generator tasks
        if cfg["ntasks"] and len(st.tasks) < cfg["ntasks"] and rng.random() < cfg["p_task"] * 0.3:
            ops = self._suspended_expansion(rng, cfg, st)
            if ops:
                st.queue.extend(ops[1:])
                return ops[0]
        if cfg["ntasks"] and rng.random() < cfg["p_task"]:
            op = self._task_op(rng, cfg, st)
            if op is not None:
                return op
        for _ in range(20):
            if rng.random() < cfg["p_read"]:
                op = self._read(rng, cfg, st)
                if op is not None and rng.random() < cfg["p_pattern"]:
                    target = op.get("v") or op.get("s")
                    r = rng.random()
                    if op.get("u") in st.view.snap and rng.random() < 0.4:
                        # universe-restricted read -> membership of that very
                        # universe changes -> same read again
                        mut = self._membership_change(rng, st, op["u"], target)
                        st.stats["probe:membership-change-between-two-restricted-reads"] += 1
                    elif r < 0.5:
                        # read -> mutate near it -> same read again
                        mut = self._mutation_near(rng, cfg, st, target)
                    elif r < 0.75:
                        # read -> mutate anywhere -> same read again
                        mut = self._mutation(rng, cfg, st)
                    else:
                        # read -> same read again (a hit that must still be right)
                        mut = None
                        st.queue.append(dict(op))
                    if mut is not None:
                        st.queue.append(mut)
                        st.queue.append(dict(op))
                        if cfg["cache"] == "toggling" and rng.random() < 0.3:
                            # put the mutation inside a flag-off window
                            st.queue.insert(0, {"op": "flag", "value": False})
                            st.queue.insert(2, {"op": "flag", "value": True})
            else:
                op = self._mutation(rng, cfg, st)
            if op is not None:
                return op
        return None

    def _read(self, rng, cfg, st):
        recent = getattr(st, "recent_reads", None)
        if recent and rng.random() < 0.35:
            # an earlier read again, whatever happened since
            op = dict(rng.choice(recent))
            if all(
                (op.get(k) is None or op[k] in st.view.snap) for k in ("v", "s", "u")
            ):
                return op
        kind = gen.weighted_choice(rng, cfg["read_weights"])
        return getattr(st.gen, "g_" + kind)(rng, st.view, st.namer, focus=st.focus[-4:])

    def _mutation(self, rng, cfg, st, kind=None):
        if kind is None:
            kind = gen.weighted_choice(rng, cfg["weights"])
        if kind == "adj_dict":
            op = gen.g_adj_dict(st.gen, rng, st.view, st.namer)
            if op is not None and cfg.get("lazy_adjacency") and rng.random() < 0.5:
                op["vals_as"] = "ibft"
                st.stats["probe:adjacency-values-are-a-running-traversal"] += 1
            return op
        if kind == "adj_matrix":
            return gen.g_adj_matrix(st.gen, rng, st.view, st.namer)
        return st.gen.draw(rng, st.view, st.namer, kind)

    def _repair_pattern(self, rng, st):
        """
        Work on an edge in an unusual state, with reads around every step:
        an edge that names a vertex which does not list it (left behind by a
        call that a user override cut short) is attached from the vertex's
        side; an unset end is dropped from an edge through unlink_from(None).
        """
        view = st.view
        half = []
        unset = []
        extra = []
        for e in view.edges():
            ends = view.ends(e)
            if len(ends) > 2:
                extra.extend((e, x) for x in ends[2:] if x is not None)
                extra.extend((e, x) for x in ends[:2] if x is not None and x in ends[2:])
            for x in ends:
                if x is not None and x in view.snap and e not in view.links_of(x):
                    half.append((e, x))
            if None in ends and len(ends) >= 2:
                unset.append(e)
        twins = {}
        for v in view.vertices():
            d = view.snap[v]
            if d.get("cls") == "EqVertex":
                twins.setdefault(getattr(st.exB.w.objs.get(v), "sim_tag", None), []).append(v)
        twins = [g for g in twins.values() if len(g) >= 2]
        if twins and rng.random() < 0.6:
            # two distinct vertices that compare equal, each named in turn to
            # the same query from one third vertex
            t1, t2 = rng.sample(rng.choice(twins), 2)
            hubs = [v for v in view.vertices() if view.links_of(v)] or view.vertices()
            hub = rng.choice(hubs)
            st.stats["probe:equal-but-distinct-vertices-named-in-turn"] += 1
            fn = rng.choice(["unlink", "link", "edge"])
            if fn == "edge":
                # ... or made the two ends of one edge, with warm answers before
                reads = [{"op": "neighbors", "v": x, "unk": "nb", "dir": d} for x in (t1, t2) for d in ("any", "fwd")]
                e = st.namer.new("e")
                if rng.random() < 0.5:
                    ops = [{"op": "mk_edge", "new": e, "cls": rng.choice(["DirectedEdge", "UnDirectedEdge"]), "a": t1, "b": t2}]
                    return reads + ops + [dict(r) for r in reads] + [{"op": "unlink_from", "e": e, "v": rng.choice([t1, t2])}] + [dict(r) for r in reads]
                # an edge from somewhere to one twin; its other end is then
                # re-pointed at the other twin through the edge's own setter
                ops = [{"op": "mk_edge", "new": e, "cls": rng.choice(["DirectedEdge", "UnDirectedEdge"]), "a": hub, "b": t2}]
                return ops + reads + [{"op": "set_end", "e": e, "which": 1, "x": t1}] + [dict(r) for r in reads]
            if fn == "unlink":
                ops = [{"op": "unlink", "a": hub, "b": t1}, {"op": "unlink", "a": hub, "b": t2}]
            else:
                ops = [
                    {"op": "link", "new": st.namer.new("e"), "fn": "link_from_to", "cls": "DirectedEdge", "a": hub, "b": t1, "dontdup": True},
                    {"op": "link", "new": st.namer.new("e"), "fn": "link_from_to", "cls": "DirectedEdge", "a": hub, "b": t2, "dontdup": True},
                ]
            reads = [{"op": "neighbors", "v": x, "unk": "nb", "dir": "any"} for x in (hub, t1, t2)]
            return ops + reads
        if extra and rng.random() < 0.5:
            # a two-ended edge that names a vertex beyond its two ends: that
            # vertex is promoted to an end (or an end named a third time is
            # replaced), with reads of everyone the edge names around it
            e, x = rng.choice(extra)
            st.stats["probe:end-assignment-on-an-edge-naming-a-further-vertex"] += 1
            named = list(dict.fromkeys(y for y in view.ends(e) if y is not None))
            reads = [{"op": "neighbors", "v": y, "unk": "nb", "dir": rng.choice(["fwd", "any"])} for y in named]
            which = rng.choice([1, 2])
            target = x if rng.random() < 0.6 else st.gen.pick_vertex(rng, view, allow_none=False)
            return reads + [{"op": "set_end", "e": e, "which": which, "x": target}] + [dict(r) for r in reads]
        if half and (not unset or rng.random() < 0.6):
            e, p = rng.choice(half)
            st.stats["probe:half-attached-edge-completed-from-the-vertex-side"] += 1
            # reads of the vertex itself and of everyone else the edge names
            reads = [{"op": "neighbors", "v": p, "unk": "nb", "dir": "any"}]
            for x in dict.fromkeys(y for y in view.ends(e) if y is not None and y != p and y in view.snap):
                reads.append({"op": "neighbors", "v": x, "unk": "nb", "dir": rng.choice(["any", "fwd"])})
            ops = [dict(r) for r in reads]
            mine = [l for l in view.links_of(p) if view.snap.get(l, {}).get("k") == "e"]
            if mine:
                ops.append({"op": "remove_from_link", "v": p, "e": rng.choice(mine)})
                ops.extend(dict(r) for r in reads)
            ops.append({"op": "add_to_link", "v": p, "e": e})
            ops.extend(dict(r) for r in reads)
            return ops
        if unset:
            e = rng.choice(unset)
            named = [x for x in view.ends(e) if x is not None]
            st.stats["probe:unset-end-dropped-from-an-edge"] += 1
            reads = [{"op": "neighbors", "v": x, "unk": "nb", "dir": rng.choice(["fwd", "any"])} for x in dict.fromkeys(named)]
            ops = list(reads)
            if len(view.ends(e)) == 2 and rng.random() < 0.6:
                w = st.gen.pick_vertex(rng, view, allow_none=False)
                if w is not None:
                    ops.append({"op": "add_vertex", "e": e, "v": w})
                    reads.append({"op": "neighbors", "v": w, "unk": "nb", "dir": "any"})
                    ops.extend(dict(r) for r in reads)
            ops.append({"op": "unlink_from", "e": e, "v": None})
            ops.extend(dict(r) for r in reads)
            return ops
        return None

    def _membership_change(self, rng, st, u, near):
        view = st.view
        members = [m for m in view.snap[u].get("members", []) if m in view.snap]
        outsiders = [x for x in view.vertices() if x not in members]
        # prefer vertices the read will have visited: the start and its neighbourhood
        hood = [near] if near in view.snap else []
        for l in view.links_of(near) if near in view.snap else []:
            hood.extend(x for x in view.ends(l) if x is not None)
        if members and (not outsiders or rng.random() < 0.5):
            cand = [m for m in members if m in hood] or members
            v = rng.choice(cand)
            return {"op": rng.choice(["uni_remove", "v_remove_uni"]), "u": u, "v": v}
        if outsiders:
            cand = [x for x in outsiders if x in hood] or outsiders
            return {"op": rng.choice(["uni_add", "v_add_uni"]), "u": u, "v": rng.choice(cand)}
        return None

    def _mutation_near(self, rng, cfg, st, v):
        """A mutation that changes v's neighbourhood, entered through any party."""
        view = st.view
        if v is None or v not in view.snap:
            return self._mutation(rng, cfg, st)
        links = [l for l in view.links_of(v) if view.snap.get(l, {}).get("k") == "e"]
        choices = ["mk_edge_at", "link_at"]
        if links:
            choices += ["set_end_far", "set_end_near", "unlink_pair", "edge_unlink_from", "far_remove_from_link", "near_remove_from_link"]
        c = rng.choice(choices)
        w = st.gen.pick_vertex(rng, view, allow_none=False)
        if c == "mk_edge_at" and st.gen.room_for_links(view):
            a, b = (v, w) if rng.random() < 0.5 else (w, v)
            return {"op": "mk_edge", "new": st.namer.new("e"), "cls": st.gen.edge_class(rng), "a": a, "b": b}
        if c == "link_at" and st.gen.room_for_links(view):
            a, b = (v, w) if rng.random() < 0.5 else (w, v)
            return {"op": "link", "new": st.namer.new("e"), "fn": "link_from_to", "cls": st.gen.edge_class(rng), "a": a, "b": b, "dontdup": rng.random() < 0.3}
        if not links:
            return self._mutation(rng, cfg, st)
        e = rng.choice(links)
        ends = view.ends(e)
        if len(ends) != 2:
            return {"op": "unlink_from", "e": e, "v": v}
        near = 1 if ends[0] == v else 2
        far = 3 - near
        other = ends[far - 1]
        if c == "set_end_far":
            return {"op": "set_end", "e": e, "which": far, "x": w}
        if c == "set_end_near":
            return {"op": "set_end", "e": e, "which": near, "x": w}
        if c == "unlink_pair" and other is not None:
            a, b = (v, other) if rng.random() < 0.5 else (other, v)
            return {"op": "unlink", "a": a, "b": b}
        if c == "edge_unlink_from":
            return {"op": "unlink_from", "e": e, "v": other if rng.random() < 0.6 else v}
        if c == "far_remove_from_link" and other is not None:
            return {"op": "remove_from_link", "v": other, "e": e}
        return {"op": "remove_from_link", "v": v, "e": e}

    def _suspended_expansion(self, rng, cfg, st):
        """
        A lazy traversal is started at a vertex with several neighbours and
        advanced just far enough to be suspended while that vertex is being
        expanded; the vertex's links then change, the traversal goes on, and
        the vertex is asked again.
        """
        view = st.view
        hubs = [v for v in view.vertices() if len(view.links_of(v)) >= 2]
        if not hubs:
            return None
        hub = rng.choice(hubs)
        t = st.namer.new("t")
        spawn = {"op": "spawn", "t": t, "fn": rng.choice(O.GEN_TRAVS), "s": hub, "u": None, "unk": "nb", "dir": rng.choice(["any", "any", "fwd"])}
        mut = self._mutation_near(rng, cfg, st, hub)
        if mut is None:
            return None
        st.stats["probe:links-of-a-vertex-change-while-a-lazy-traversal-is-suspended-inside-its-expansion"] += 1
        read = {"op": "neighbors", "v": hub, "unk": "nb", "dir": spawn["dir"]}
        return [
            dict(read),
            spawn,
            {"op": "step", "t": t, "n": rng.choice([1, 2, 2, 3])},
            mut,
            {"op": "step", "t": t, "n": rng.choice([1, 2, 8])},
            dict(read),
            {"op": "trav", "fn": rng.choice(["bft", "dft_recursive", "dft_iterative"]), "s": hub, "u": None, "unk": "nb", "dir": spawn["dir"]},
        ]

    def _task_op(self, rng, cfg, st):
        r = rng.random()
        if st.tasks and r < 0.6:
            return {"op": "step", "t": rng.choice(st.tasks), "n": rng.choice([1, 1, 2, 3])}
        if st.tasks and r < 0.7:
            return {"op": "abandon", "t": rng.choice(st.tasks)}
        if len(st.tasks) < cfg["ntasks"]:
            args = st.gen.trav_args(rng, st.view, focus=st.focus[-4:])
            if args is None:
                return None
            op = {"op": "spawn", "t": st.namer.new("t"), "fn": rng.choice(O.GEN_TRAVS)}
            op.update(args)
            return op
        return None

    # -- execution and oracle -------------------------------------------------------------
    def execute(self, st, op):
        if getattr(st, "diverged", False):
            return None, None
        k = op["op"]
        s = st.stats
        if k == "flag":
            if st.tasks and op["value"] != st.flag:
                s["probe:flag-flip-with-live-generators"] += 1
            if op["value"] != st.flag:
                s["fault:flag-flip"] += 1
            st.flag = bool(op["value"])
            return {"flag": st.flag}, None
        if getattr(st, "dangling", False) and k in MUTATING_OPS:
            st.diverged = True
            s["note:run-ended:user-exception-left-a-vertex-listing-a-link-that-omits-it"] += 1
            return None, None
        self._probes(st, op)
        a, b = st.apply_both(op)
        if a is None and b is None:
            return None, None
        s["op:" + k] += 1
        if k in MUTATING_OPS and b is not None and b.get("exc") == "InjectedFault":
            s["probe:mutator-cut-short-by-an-exception-out-of-a-user-override"] += 1
            s["fault:exception-out-of-subclass-override"] += 1
        if k == "spawn" and a is not None and "exc" not in a and op["t"] not in st.tasks:
            st.tasks.append(op["t"])
            s["fault:task-spawned"] += 1
        if k in ("step", "abandon"):
            live = op["t"] in st.exA.tasks or op["t"] in st.exB.tasks
            if not live and op["t"] in st.tasks:
                st.tasks.remove(op["t"])
            if k == "abandon":
                s["probe:task-abandoned"] += 1
                s["fault:task-abandoned"] += 1
            else:
                s["fault:task-step"] += 1
        out = {"A": a, "B": b, "flag": st.flag}
        if a != b:
            st.cache_delta()
            if k in READ_OPS:
                kind = f"C05/cached-answer-differs:{k}"
                if (a is not None and "exc" in a) != (b is not None and "exc" in b):
                    kind = f"C05/cached-call-raises-differently:{k}"
            else:
                kind = f"C05/mutator-behaves-differently-under-caching:{k}"
            return out, engine.viol(
                kind, {"op": op, "cached": a, "uncached": b, "flag": st.flag}
            )
        if k in MUTATING_OPS:
            st.mutations += 1
            st.mut_since_read = True
            if not st.flag:
                st.mut_while_off = True
            snapB = st.refresh()
            snapA = st.snapshot_A()
            if snapA != snapB:
                from egsim import model as M

                return out, engine.viol(
                    f"C05/structure-differs-under-caching:{k}",
                    {"op": op, "diff": M.first_difference(snapA, snapB)},
                )
            if a is not None and "exc" in a and _dangling_listing(snapB):
                # an exception out of a user override left a vertex listing a
                # link that does not name it.  What that vertex's neighbors are
                # now depends on a link that has no way of telling it about
                # later changes: nothing said about caching from here on would
                # be the library's doing
                # -- so reads are still compared now (the vertex's own change
                # must have been noticed), but the run ends before the next mutation
                st.dangling = True
            for key in ("v", "a", "b", "x"):
                if isinstance(op.get(key), str):
                    st.focus.append(op[key])
        elif k in READ_OPS:
            st.reads += 1
            if st.flag:
                st.reads_flag_on += 1
                if st.mut_while_off:
                    s["probe:mutation-in-flag-off-window-then-cached-read"] += 1
                    st.mut_while_off = False
            tgt = op.get("v") or op.get("s")
            if tgt:
                st.focus.append(tgt)
            if k != "step":
                if not hasattr(st, "recent_reads"):
                    st.recent_reads = []
                st.recent_reads.append(dict(op))
                del st.recent_reads[:-6]
        return out, None

    def _probes(self, st, op):
        s = st.stats
        k = op["op"]
        if k in MUTATING_OPS and st.tasks:
            s["probe:mutation-with-live-generators"] += 1
        if k in ("set_end", "unlink_from", "add_vertex"):
            s["probe:mutation-entered-through-edge"] += 1
        if k in ("remove_from_link", "add_to_link") and st.focus and op.get("v") != st.focus[-1]:
            s["probe:mutation-entered-through-far-end"] += 1
        if k in ("adj_dict", "adj_matrix"):
            s["probe:builder-on-existing-vertices"] += 1
        if str(op.get("ff") or op.get("ffv") or "").startswith("~"):
            s["probe:short-lived-filter-callable"] += 1
        if k in ("neighbors", "trav", "search"):
            tgt = op.get("v") or op.get("s")
            if st.mut_since_read and tgt in st.focus[-6:]:
                s["probe:read-mutate-read-on-same-vertex"] += 1
            st.mut_since_read = False

    def finish(self, st):
        st.cache_delta()
        for ex in (st.exA, st.exB):
            for g in list(ex.tasks.values()):
                try:
                    g.close()
                except Exception:  # pylint: disable=broad-except
                    pass
            ex.tasks.clear()
        if st.cfg.get("_resumed") and st.stats.get("cache:hits"):
            st.stats["probe:cache-hit-in-restarted-process"] += 1
        return None

    def state_hash(self, st):
        return engine.h64(engine.jdump([st.snap, st.flag]))

    def nontrivial(self, st):
        return st.reads_flag_on >= 2 and st.mutations >= 1 and st.reads >= 2

    # -- restart -----------------------------------------------------------------------------
    def make_capsule(self, st, op):
        for ex in (st.exA, st.exB):
            for g in list(ex.tasks.values()):
                g.close()
            ex.tasks.clear()
        st.tasks = []
        st.cache_delta()
        if st.stats.get("cache:insertions"):
            st.stats["probe:restart-with-warm-memo"] += 1
        st.stats["fault:restart"] += 1
        data = twin.dump_worlds(st, op.get("proto", 4))
        extras = {
            "namer": st.namer.c,
            "flag": st.flag,
            "focus": st.focus[-8:],
            "queue": st.queue,
            "step_no": st.step_no,
            "recent_reads": getattr(st, "recent_reads", []),
            "dangling": getattr(st, "dangling", False),
        }
        return {"bytes": data, "extras": extras}

    def capsule_failed(self, st, op, exc):
        st.stats["note:capsule-dump-failed:" + type(exc).__name__] += 1
        return None

    def from_capsule(self, cfg, capsule, op):
        cfg = dict(cfg)
        cfg["_resumed"] = True
        st = twin.TwinState(cfg)
        st.gen = gen.StructGen(cfg)
        twin.load_worlds(st, capsule["bytes"], op.get("loader", "pickle"))
        ex = capsule["extras"]
        st.namer = gen.Namer(ex["namer"])
        st.flag = ex["flag"]
        st.focus = list(ex["focus"])
        st.queue = list(ex["queue"])
        st.step_no = ex["step_no"]
        st.recent_reads = list(ex.get("recent_reads", []))
        st.dangling = bool(ex.get("dangling", False))
        st.pending = []
        st.restarted = True
        snap_b = st.refresh()
        if st.snapshot_A() != snap_b:
            # the twins came back from the pickle structurally different from
            # each other: the round trip is at fault (C10's matter), and
            # nothing compared from here on would say anything about caching
            st.diverged = True
            st.stats["note:twins-diverged-across-restart"] += 1
        return st

    def load_failed(self, cfg, op, exc):
        # a world that cannot be loaded back is C10's matter, not a cache matter
        return None


def _dangling_listing(snap):
    for lab, d in snap.items():
        for l in d.get("links", ()):
            if lab not in snap.get(l, {}).get("ends", ()):
                return True
    return False


PROPERTY = C05()
