"""
A *world*: real edgegraph objects addressed by stable labels, and the walk
that turns it into plain comparable data through public accessors only.
"""

import egsim  # noqa: F401
from edgegraph.structure.universe import UniverseLaws
from edgegraph.structure import (
    Vertex,
    Universe,
    Link,
    TwoEndedLink,
)

LAW_RULES = ("mixed_links", "cycles", "multipath", "multiverse")


def kind_of(obj):
    if isinstance(obj, Universe):
        return "u"
    if isinstance(obj, Vertex):
        return "v"
    if isinstance(obj, TwoEndedLink):
        return "e"
    if isinstance(obj, Link):
        return "m"
    if isinstance(obj, UniverseLaws):
        return "L"
    return "o"


class World:
    """Label <-> object registry.  Creation order is kept."""

    def __init__(self):
        self.objs = {}  # label -> object (insertion ordered)
        self.kind = {}  # label -> kind char
        self._label = {}  # id(obj) -> label
        self.ctx = "x"  # label prefix for objects discovered, not returned
        self._disc = {}  # ctx -> counter

    # -- registry ---------------------------------------------------------
    def add(self, label, obj, kind=None):
        if label in self.objs:
            raise egsim.HarnessError(f"label {label} reused")
        self.objs[label] = obj
        self.kind[label] = kind or kind_of(obj)
        self._label[id(obj)] = label
        return obj

    def has(self, label):
        return label in self.objs

    def get(self, label):
        if label is None:
            return None
        return self.objs[label]

    def known(self, obj):
        lab = self._label.get(id(obj))
        return lab is not None and self.objs.get(lab) is obj

    def lab(self, obj):
        """Label of obj; None for None; discovers unknown graph objects."""
        if obj is None:
            return None
        lab = self._label.get(id(obj))
        if lab is not None and self.objs.get(lab) is obj:
            return lab
        k = kind_of(obj)
        if k == "o":
            return f"?{type(obj).__name__}"
        n = self._disc.get(self.ctx, 0)
        self._disc[self.ctx] = n + 1
        lab = f"{self.ctx}~{k}{n}"
        self.add(lab, obj, k)
        return lab

    def labs(self, seq):
        return [self.lab(x) for x in seq]

    def labels_of_kind(self, kinds):
        return [l for l, k in self.kind.items() if k in kinds]

    # -- public-accessor walk ---------------------------------------------
    def snapshot(self):
        """
        Plain data for the whole world via public accessors.  Objects met on
        the way that are not yet labelled are discovered (deterministically:
        registry order, then list order) and walked too.
        """
        snap = {}
        i = 0
        while True:
            labels = list(self.objs)
            if i >= len(labels):
                break
            label = labels[i]
            i += 1
            snap[label] = self.snap_one(label)
        return snap

    def snap_one(self, label):
        obj = self.objs[label]
        k = self.kind[label]
        d = {"k": k, "cls": type(obj).__name__}
        try:
            if k in "vu":
                d["links"] = self.labs(obj.links)
                d["universes"] = self.labs(obj.universes)
            if k == "u":
                d["members"] = self.labs(obj.vertices)
                d["laws"] = self.lab(obj.laws)
            if k in "em":
                d["ends"] = self.labs(obj.vertices)
            if k == "L":
                d["applies_to"] = self.lab(obj.applies_to)
        except Exception as exc:  # pylint: disable=broad-except
            d["!"] = type(exc).__name__
        return d


def public_attrs(obj):
    """Names and plain values of an object's public instance attributes."""
    out = {}
    for name, val in vars(obj).items():
        if name.startswith("_") and not name.startswith("__"):
            # the library's own names; a name with two leading underscores
            # set through the attribute interface is the user's
            continue
        out[name] = val
    return out
