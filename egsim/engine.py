"""
The run loop: one seed -> one exactly repeatable execution.

A run is   config (drawn first)  ->  steps (generated or given)  ->  verdict.
Everything random comes from one `random.Random(run_seed)`.  The event log is a
sha256 over the normalised (operation, outcome) pairs; logging draws nothing.
"""

import collections
import hashlib
import os
import json
import random

import egsim
from egsim import seams


def jdump(x):
    return json.dumps(x, sort_keys=True, separators=(",", ":"), default=str)


class Result:
    __slots__ = (
        "prop",
        "run_seed",
        "cfg",
        "ops",
        "digest",
        "violation",
        "stats",
        "states",
        "nontrivial",
        "steps",
        "transitions",
    )

    def __init__(self):
        self.violation = None
        self.ops = []
        self.stats = collections.Counter()
        self.states = set()
        self.transitions = set()
        self.nontrivial = False
        self.steps = 0

    def to_json(self):
        return {
            "prop": self.prop,
            "run_seed": self.run_seed,
            "cfg": self.cfg,
            "ops": self.ops,
            "digest": self.digest,
            "violation": self.violation,
            "stats": dict(self.stats),
            "states": sorted(self.states),
            "transitions": sorted(self.transitions),
            "nontrivial": self.nontrivial,
            "steps": self.steps,
        }

    @classmethod
    def from_json(cls, d):
        r = cls()
        r.prop = d["prop"]
        r.run_seed = d["run_seed"]
        r.cfg = d["cfg"]
        r.ops = d["ops"]
        r.digest = d["digest"]
        r.violation = d["violation"]
        r.stats = collections.Counter(d["stats"])
        r.states = set(d["states"])
        r.transitions = set(d.get("transitions", []))
        r.nontrivial = d["nontrivial"]
        r.steps = d["steps"]
        return r


class Property:
    """Interface every property module implements."""

    id = "C00"
    level = "exploration"
    title = ""
    # cap on steps executed by one run whatever the configuration says
    max_steps = 80

    def make_config(self, rng):
        raise NotImplementedError

    def start(self, cfg):
        """Fresh state for a run (worlds, model, counters)."""
        raise NotImplementedError

    def next_op(self, rng, cfg, st):
        """Draw the next operation, or None to end the run."""
        raise NotImplementedError

    def execute(self, st, op):
        """Run op, evaluate the oracle.  -> (outcome, violation | None)"""
        raise NotImplementedError

    def finish(self, st):
        return None

    def state_hash(self, st):
        """64-bit hash of the canonical state (reach measure) or None."""
        return None

    def nontrivial(self, st):
        return True

    # restart support (only for properties that schedule restarts)
    def make_capsule(self, st, op):
        raise NotImplementedError

    def from_capsule(self, cfg, capsule, op):
        raise NotImplementedError

    def capsule_failed(self, st, op, exc):
        """Serialising the capsule raised.  -> violation | None (skip the restart)"""
        return None

    def load_failed(self, cfg, op, exc):
        """Loading the capsule on the far side raised.  -> violation | None"""
        return None


# EGSIM_TRACE=<file>: the (operation, outcome) pairs as they are hashed, for
# finding out why two runs of one seed differ
_TRACE = open(os.environ["EGSIM_TRACE"], "a") if os.environ.get("EGSIM_TRACE") else None


def h64(s):
    return int.from_bytes(hashlib.sha256(s.encode()).digest()[:8], "big")


def viol(kind, detail=None):
    return {"kind": kind, "detail": detail}


def _loop(prop, cfg, st, rng, given_ops, res, log, budget, allow_restart):
    """
    Shared by fresh runs, replays and resumed (post-restart) executions.
    given_ops is None when generating.
    """
    i = 0
    prev_hash = 0
    while budget > 0:
        if given_ops is None:
            op = prop.next_op(rng, cfg, st)
            if op is None:
                break
        else:
            if i >= len(given_ops):
                break
            op = given_ops[i]
        i += 1
        budget -= 1

        if op.get("op") == "restart":
            if not allow_restart:
                continue
            res.ops.append(op)
            res.steps += 1
            from egsim import restart  # late: avoids an import cycle

            try:
                capsule = prop.make_capsule(st, op)
            except Exception as exc:  # pylint: disable=broad-except
                v = prop.capsule_failed(st, op, exc)
                log.update(jdump([op, {"exc": type(exc).__name__}]).encode())
                if v is not None:
                    v["step"] = len(res.ops) - 1
                    res.violation = v
                    return st
                continue
            rest = None if given_ops is None else given_ops[i:]
            child = restart.run_child(
                prop.id,
                cfg,
                capsule,
                op,
                rng.getstate() if rng is not None else None,
                rest,
                budget,
                res.run_seed,
            )
            log.update(jdump([op, "restart"]).encode())
            log.update(child["digest"].encode())
            base = len(res.ops)
            res.ops.extend(child["ops"])
            res.steps += child["steps"]
            res.stats.update(child["stats"])
            res.states.update(child["states"])
            res.transitions.update(child.get("transitions", []))
            res.nontrivial = res.nontrivial or child["nontrivial"]
            res.stats["restart:" + op.get("mode", "exec")] += 1
            if child["violation"] is not None:
                v = dict(child["violation"])
                v["step"] = base + v.get("step", 0)
                res.violation = v
            res.stats.update(getattr(st, "stats", {}))
            res.nontrivial = res.nontrivial or bool(prop.nontrivial(st))
            return None  # state now lives (and died) in the child

        try:
            out, v = prop.execute(st, op)
        except BaseException as exc:  # pylint: disable=broad-except
            if type(exc).__name__ == "Watchdog" and getattr(prop, "nontermination_is_violation", False):
                # the call did not come back within the run's wall budget: keep
                # the history up to and including it, so that it can be replayed
                out, v = {"exc": "<did not return>"}, viol(f"{prop.id}/nontermination", {"op": op})
            else:
                raise
        if out is None and v is None:
            # skipped (labels missing): not part of the history
            continue
        res.ops.append(op)
        res.steps += 1
        log.update(jdump([op, out]).encode())
        if _TRACE is not None:
            _TRACE.write(jdump([op, out]) + "\n")
        sh = prop.state_hash(st)
        if sh is not None:
            res.states.add(sh)
            # a transition = (state before, kind of operation, state after)
            res.transitions.add(h64(f"{prev_hash}:{op.get('op')}:{sh}"))
            prev_hash = sh
        if v is not None:
            v["step"] = len(res.ops) - 1
            res.violation = v
            return st
    return st


def _finish(prop, st, res, log):
    if st is not None and res.violation is None:
        v = prop.finish(st)
        if v is not None:
            v["step"] = len(res.ops)
            res.violation = v
    if st is not None:
        res.nontrivial = res.nontrivial or bool(prop.nontrivial(st))
        res.stats.update(getattr(st, "stats", {}))
    res.digest = log.hexdigest()


def run_generated(prop, run_seed):
    seams.reset_process_state(run_seed)
    rng = random.Random(run_seed)
    res = Result()
    res.prop = prop.id
    res.run_seed = run_seed
    cfg = prop.make_config(rng)
    res.cfg = cfg
    log = hashlib.sha256()
    log.update(jdump(["seed", run_seed, cfg]).encode())
    st = prop.start(cfg)
    cap = prop.max_steps * (3 if cfg.get("deep_bounds") else 1)
    budget = min(int(cfg.get("steps", prop.max_steps)), cap)
    st = _loop(prop, cfg, st, rng, None, res, log, budget, True)
    _finish(prop, st, res, log)
    seams.set_flag(False)
    return res


def run_replay(prop, cfg, ops, run_seed=0):
    seams.reset_process_state(run_seed)
    res = Result()
    res.prop = prop.id
    res.run_seed = run_seed
    res.cfg = cfg
    log = hashlib.sha256()
    log.update(jdump(["seed", run_seed, cfg]).encode())
    st = prop.start(cfg)
    st = _loop(prop, cfg, st, None, list(ops), res, log, len(ops) + 5, True)
    _finish(prop, st, res, log)
    seams.set_flag(False)
    return res


def run_resumed(prop, cfg, capsule, op, rng_state, rest_ops, budget, run_seed):
    """Executed in the process on the far side of a restart."""
    seams.reset_process_state(("resumed", run_seed))
    res = Result()
    res.prop = prop.id
    res.run_seed = run_seed
    res.cfg = cfg
    log = hashlib.sha256()
    rng = None
    if rng_state is not None:
        rng = random.Random()
        rng.setstate(rng_state)
    try:
        st = prop.from_capsule(cfg, capsule, op)
    except Exception as exc:  # pylint: disable=broad-except
        v = prop.load_failed(cfg, op, exc)
        res.violation = v
        if v is not None:
            v["step"] = 0
        res.digest = log.hexdigest()
        return res
    st = _loop(prop, cfg, st, rng, rest_ops, res, log, budget, False)
    _finish(prop, st, res, log)
    seams.set_flag(False)
    return res


def get_property(pid):
    import importlib

    mod = importlib.import_module(f"egsim.props.{pid.lower()}")
    return mod.PROPERTY
